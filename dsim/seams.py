"""Seams the simulator owns: object identity (`id`), cyclic GC timing, wall clock,
the `random` module object seen by synkit.Utils.utils.

No file under /repo is edited: every seam is an existing rebinding point (a
module-global name of a synkit module, looked up before builtins).
"""
from __future__ import annotations

import gc
import random
import sys
import time as _real_time
import weakref
from typing import Any, Callable, Dict, List, Optional

from .kernel import Sim

_builtin_id = id


# ---------------------------------------------------------------------------
# Identity allocator
# ---------------------------------------------------------------------------


class SimAllocator:
    """Simulated address space standing in for builtin `id`.

    Soundness rule: an address is handed out again only after its previous owner
    is provably dead (weakref callback fired, or the object was a temporary whose
    only reference was the caller's evaluation stack).  Every identity sequence
    produced is therefore one CPython is allowed to produce.
    """

    def __init__(self, sim: Sim, name: str = "main", base: int = 0x10000):
        self.sim = sim
        self.name = name
        self.rng = sim.rng("alloc", name)
        self.p_reuse = 0.0
        self.pick = "lifo"
        self.gc_p = 0.0
        self._next = base
        self._live: Dict[int, Any] = {}  # real id -> (weakref, addr)
        self._pinned: Dict[int, Any] = {}  # real id -> (obj, addr)   (non-weakrefable, non-temporary)
        self._free: List[int] = []
        self._pending: List[int] = []
        self.baseline_temp = _calibrate_temp_refcount()
        self.baseline_pinned = _calibrate_pinned_refcount()
        self.reused_log: set = set()  # addresses that have been handed out more than once
        self.hooks_on_assign: List[Callable[[int, bool], None]] = []  # (addr, reused)
        self.n_calls = 0

    # -- policy ----------------------------------------------------------
    def set_policy(self, p_reuse: float, pick: str = "lifo", gc_p: float = 0.0) -> None:
        self.p_reuse = float(p_reuse)
        self.pick = pick
        self.gc_p = float(gc_p)

    def reseed(self, s: int) -> None:
        self.rng = random.Random(int(s) ^ 0x5EED)

    # -- death notifications --------------------------------------------
    def _on_dead(self, rid: int, addr: int) -> None:
        ent = self._live.pop(rid, None)
        if ent is not None:
            self._pending.append(addr)

    def _sweep_pinned(self) -> None:
        """Objects that cannot be weakly referenced (dict, list, tuple, ...) are kept alive by this table. Once the
        table holds the ONLY reference, CPython would have freed the object when its last real owner let go:
        the entry is dropped and the address becomes reusable."""
        if not self._pinned:
            return
        _grc = sys.getrefcount
        base = self.baseline_pinned
        dead = [rid for rid, ent in self._pinned.items() if _grc(ent[0]) <= base]
        for rid in dead:
            _obj, addr = self._pinned.pop(rid)
            self._pending.append(addr)
            self.sim.probe("unreferenced_container_address_released")
        del dead

    def flush(self) -> None:
        self._sweep_pinned()
        if self._pending:
            self._pending.sort()
            self._free.extend(self._pending)
            self._pending.clear()

    def collect(self) -> int:
        n = gc.collect()
        self.flush()
        self.sim.fault("gc")
        return n

    # -- allocation ------------------------------------------------------
    def _fresh(self) -> int:
        self._next += 16
        return self._next

    def _choose(self) -> int:
        self.flush()
        if self._free and self.p_reuse > 0 and (self.p_reuse >= 1 or self.rng.random() < self.p_reuse):
            if self.pick == "lifo":
                addr = self._free.pop()
            elif self.pick == "fifo":
                addr = self._free.pop(0)
            else:
                addr = self._free.pop(self.rng.randrange(len(self._free)))
            self.reused_log.add(addr)
            self.sim.fault("addr_reuse")
            for h in self.hooks_on_assign:
                h(addr, True)
            return addr
        addr = self._fresh()
        for h in self.hooks_on_assign:
            h(addr, False)
        return addr

    def fn(self) -> Callable[[Any], int]:
        """Plain function to bind as a module-global `id` (same call shape as the calibration)."""
        _id = self._id
        _grc = sys.getrefcount

        def sim_id(o: Any) -> int:
            rc = _grc(o) - 1  # evaluated before `o` is pushed as a call argument
            return _id(o, rc)

        return sim_id

    def __call__(self, obj: Any) -> int:
        return self._id(obj, 1 << 30)

    def _id(self, obj: Any, rc: int) -> int:
        # rc = references held by the caller's evaluation stack + sim_id's parameter
        self.n_calls += 1
        self.sim.step()
        rid = _builtin_id(obj)
        ent = self._live.get(rid)
        if ent is not None and ent[0]() is obj:
            return ent[1]
        pin = self._pinned.get(rid)
        if pin is not None and pin[0] is obj:
            return pin[1]
        if self.gc_p > 0 and self.rng.random() < self.gc_p:
            self.collect()
        try:
            addr_box: List[int] = []
            ref = weakref.ref(obj, lambda _r, rid=rid, box=addr_box: self._on_dead(rid, box[0]))
        except TypeError:
            ref = None
        if ref is not None:
            addr = self._choose()
            addr_box.append(addr)
            self._live[rid] = (ref, addr)
            return addr
        # not weak-referenceable (tuple, int, str, ...)
        if rc <= self.baseline_temp:
            # a temporary: dead as soon as we return -> address immediately reusable
            addr = self._choose()
            self._pending.append(addr)
            self.sim.probe("ephemeral_id")
            return addr
        addr = self._choose()
        self._pinned[rid] = (obj, addr)
        return addr

    def live_count(self) -> int:
        return len(self._live)


def _calibrate_pinned_refcount() -> int:
    """Refcount seen by `sys.getrefcount(ent[0])` for an object whose only owner is the tuple `ent`."""
    table = {1: ({}, 0)}
    return max(sys.getrefcount(ent[0]) for _rid, ent in table.items())


def _calibrate_temp_refcount() -> int:
    """Refcount seen inside a plain function for an argument that is a pure temporary."""
    rec: List[int] = []

    def probe(o: Any) -> int:
        rec.append(sys.getrefcount(o) - 1)
        return 0

    ns = {"id": probe}
    exec("def f(part):\n    return id(tuple(tuple(c) for c in part))\n"
         "def g(part):\n    x = tuple(tuple(c) for c in part)\n    return id(x)\n", ns)
    ns["f"]([[1], [2]])
    ns["g"]([[1], [2]])
    if rec[1] != rec[0] + 1:
        raise RuntimeError(f"cannot calibrate temporary refcount: {rec}")
    return rec[0]


# ---------------------------------------------------------------------------
# Clock
# ---------------------------------------------------------------------------


class SimClock:
    """Virtual wall clock. Every read advances by `tick`; faults are scheduled
    relative to the number of reads so they land *inside* operations."""

    def __init__(self, sim: Sim, t0: float = 1_700_000_000.0):
        self.sim = sim
        self.now = t0
        self.t0 = t0
        self.tick = 0.0
        self.reads = 0
        self.frozen = 0
        self._sched: List[List[Any]] = []  # [reads_left, kind, arg]
        self.max_seen = t0
        self.went_back = False
        self._w_first = None
        self._w_max = None

    def begin_window(self) -> None:
        self._w_first: Optional[float] = None
        self._w_max: Optional[float] = None

    def window_elapsed(self) -> Optional[float]:
        """Largest (later read - earlier read) over all pairs of reads since begin_window(): an upper
        bound on what any `time.time() - start` inside the window can have evaluated to, whichever
        read served as `start` (several calls, backward jumps). None if no read."""
        if getattr(self, "_w_first", None) is None:
            return None
        return self._w_max  # type: ignore[return-value]

    def set_tick(self, dt: float) -> None:
        self.tick = float(dt)

    def schedule(self, after_reads: int, kind: str, arg: float) -> None:
        self._sched.append([int(after_reads), kind, arg])

    def pending_faults(self) -> int:
        return len(self._sched)

    def clear_faults(self) -> None:
        self._sched.clear()
        self.frozen = 0

    def _apply(self, kind: str, arg: float) -> None:
        if kind == "jump":
            self.now += arg
            self.sim.fault("clock_jump_fwd" if arg >= 0 else "clock_jump_back")
            self.sim.sim_seconds += abs(arg)
        elif kind == "freeze":
            self.frozen = int(arg)
            self.sim.fault("clock_freeze")
        elif kind == "tick":
            self.tick = float(arg)
            self.sim.fault("clock_tick_change")

    def read(self) -> float:
        self.reads += 1
        self.sim.step()
        if self._sched:
            due = [s for s in self._sched if s[0] <= 0]
            for s in due:
                self._apply(s[1], s[2])
            self._sched = [s for s in self._sched if s[0] > 0]
            for s in self._sched:
                s[0] -= 1
        if self.frozen > 0:
            self.frozen -= 1
        else:
            self.now += self.tick
            self.sim.sim_seconds += self.tick
        # window bookkeeping: _w_first = smallest read so far, _w_max = largest (later read - earlier read)
        if getattr(self, "_w_first", None) is None:
            self._w_first = self.now
            self._w_max = 0.0
        else:
            if self.now - self._w_first > self._w_max:  # type: ignore[operator]
                self._w_max = self.now - self._w_first  # type: ignore[operator]
            if self.now < self._w_first:  # type: ignore[operator]
                self._w_first = self.now
        if self.now < self.max_seen:
            self.went_back = True
            self.sim.probe("clock_went_backwards")
        else:
            self.max_seen = self.now
        return self.now


class TimeFacade:
    """Stands in for the `time` module inside a synkit module."""

    def __init__(self, clock: SimClock):
        self._clock = clock

    def time(self) -> float:
        return self._clock.read()

    def perf_counter(self) -> float:
        return self._clock.read() - self._clock.t0

    def monotonic(self) -> float:
        return self._clock.read() - self._clock.t0

    def process_time(self) -> float:
        return self._clock.read() - self._clock.t0

    def time_ns(self) -> int:
        return int(self._clock.read() * 1e9)

    def sleep(self, s: float) -> None:
        self._clock.now += max(0.0, float(s))
        self._clock.sim.sim_seconds += max(0.0, float(s))

    def __getattr__(self, name: str) -> Any:  # strftime etc.
        return getattr(_real_time, name)


# ---------------------------------------------------------------------------
# Installer
# ---------------------------------------------------------------------------


class Seams:
    """Installs / removes the rebinding of module globals in loaded synkit modules."""

    def __init__(self) -> None:
        self._saved: List[Any] = []  # (module, name, had, old)
        self.installed = False

    def _set(self, mod: Any, name: str, value: Any) -> None:
        had = name in mod.__dict__
        old = mod.__dict__.get(name)
        self._saved.append((mod, name, had, old))
        setattr(mod, name, value)

    def install(
        self,
        *,
        id_fn: Optional[Callable[[Any], int]] = None,
        time_obj: Any = None,
        random_obj: Any = None,
        parallel_cls: Any = None,
        pool_cls: Any = None,
    ) -> None:
        import joblib
        import concurrent.futures as cf

        for name, mod in list(sys.modules.items()):
            if mod is None or not (name == "synkit" or name.startswith("synkit.")):
                continue
            d = getattr(mod, "__dict__", None)
            if d is None:
                continue
            if id_fn is not None:
                self._set(mod, "id", id_fn)
            if time_obj is not None:
                for nm, val in list(d.items()):
                    if val is _real_time:                 # `import time` under any alias
                        self._set(mod, nm, time_obj)
                # `from time import time, perf_counter, ...` style bindings
                for nm, val in list(d.items()):
                    for fn in ("time", "perf_counter", "monotonic", "process_time", "time_ns", "sleep"):
                        if val is getattr(_real_time, fn):
                            self._set(mod, nm, getattr(time_obj, fn))
            if random_obj is not None and d.get("random") is random:
                self._set(mod, "random", random_obj)
            if parallel_cls is not None and d.get("Parallel") is joblib.Parallel:
                self._set(mod, "Parallel", parallel_cls)
            if pool_cls is not None and d.get("ProcessPoolExecutor") is cf.ProcessPoolExecutor:
                self._set(mod, "ProcessPoolExecutor", pool_cls)
        # attribute-style use (`joblib.Parallel(...)`, `concurrent.futures.ProcessPoolExecutor(...)`)
        if parallel_cls is not None:
            self._set(joblib, "Parallel", parallel_cls)
        if pool_cls is not None:
            self._set(cf, "ProcessPoolExecutor", pool_cls)
        self.installed = True

    def uninstall(self) -> None:
        for mod, name, had, old in reversed(self._saved):
            if had:
                setattr(mod, name, old)
            else:
                try:
                    delattr(mod, name)
                except AttributeError:
                    pass
        self._saved.clear()
        self.installed = False


class GCControl:
    """gc.disable() for the whole run; collection only when the simulator says so."""

    def __enter__(self) -> "GCControl":
        self._was = gc.isenabled()
        gc.collect()
        gc.disable()
        return self

    def __exit__(self, *exc: Any) -> None:
        gc.collect()
        if self._was:
            gc.enable()


# ---------------------------------------------------------------------------
# Module-level mutable state of synkit modules (per simulated process)
# ---------------------------------------------------------------------------


class ModuleState:
    """Every simulated process (the parent of each run, each simulated pool worker, the scratch
    'process' that computes references) gets its own copy of the module-level mutable containers
    (dict / list / set / weak dict ...) of the loaded synkit modules, taken from their import-time
    value.  On the unchanged tree there are none, so this costs nothing; it closes the abstraction
    gap "simulated workers share the parent's module-level state" for code that introduces e.g. a
    module-level memo, and makes every run start from import-time state (replay purity)."""

    _TYPES = None

    def __init__(self) -> None:
        self.snap: Dict[Any, Any] = {}
        self.scanned = False

    def scan(self) -> None:
        import collections
        import copy
        if ModuleState._TYPES is None:
            ModuleState._TYPES = (dict, list, set, collections.OrderedDict, collections.defaultdict,
                                  collections.Counter, collections.deque, weakref.WeakKeyDictionary,
                                  weakref.WeakValueDictionary)
        for name, mod in list(sys.modules.items()):
            if mod is None or not (name == "synkit" or name.startswith("synkit.")):
                continue
            for k, v in list(getattr(mod, "__dict__", {}).items()):
                if k.startswith("__") or (name, k) in self.snap:
                    continue
                if type(v) in ModuleState._TYPES:
                    try:
                        self.snap[(name, k)] = copy.deepcopy(v)
                    except Exception:
                        pass
        self.scanned = True

    def clear_function_caches(self) -> int:
        """functools.lru_cache / cache wrappers defined in synkit modules are process state as well: a run starts
        with all of them empty (as a freshly started process would), otherwise results - and replays - would
        depend on what earlier runs in the same child happened to compute."""
        n_mod = sum(1 for name in sys.modules if name == "synkit" or name.startswith("synkit."))
        if getattr(self, "_cached_fns_for", None) != n_mod:
            fns = []
            for name, mod in list(sys.modules.items()):
                if mod is None or not (name == "synkit" or name.startswith("synkit.")):
                    continue
                for k, v in list(getattr(mod, "__dict__", {}).items()):
                    objs = [v]
                    if isinstance(v, type) and getattr(v, "__module__", None) == name:
                        objs = [getattr(v, a, None) for a in list(vars(v))]
                    for o in objs:
                        f = getattr(o, "__func__", o)
                        cc = getattr(f, "cache_clear", None)
                        if callable(cc) and hasattr(f, "cache_info"):
                            fns.append(cc)
            self._cached_fns = fns
            self._cached_fns_for = n_mod
        for cc in self._cached_fns:
            try:
                cc()
            except Exception:
                pass
        return len(self._cached_fns)

    def fresh(self) -> Dict[Any, Any]:
        import copy
        if not self.scanned:
            self.scan()
        return {key: copy.deepcopy(v) for key, v in self.snap.items()}

    def bind(self, state: Dict[Any, Any]) -> None:
        for (name, k), v in state.items():
            mod = sys.modules.get(name)
            if mod is not None:
                setattr(mod, k, v)

    def current(self) -> Dict[Any, Any]:
        out = {}
        for (name, k) in self.snap:
            mod = sys.modules.get(name)
            if mod is not None and k in mod.__dict__:
                out[(name, k)] = mod.__dict__[k]
        return out


MODSTATE = ModuleState()
