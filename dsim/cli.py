"""Entry point: /verif/check <ID> --tier quick|thorough | --replay <file> | selftest-…

Run as a file path (never `-m`) so no module is loaded twice.
"""
import os
import sys

HERE = os.path.dirname(os.path.abspath(__file__))
VERIF = os.path.dirname(HERE)
if VERIF not in sys.path:
    sys.path.insert(0, VERIF)


def _hashseed_for(vseed: int) -> str:
    return str(vseed % 4294967296)


def _env_seed(text: str) -> int:
    """VERIF_SEED is normally an integer; anything else is folded into one deterministically."""
    text = (text or "0").strip()
    try:
        return abs(int(text, 0))
    except ValueError:
        import hashlib
        return int.from_bytes(hashlib.sha256(text.encode()).digest()[:6], "big")


def main(argv):
    import argparse

    ap = argparse.ArgumentParser(prog="check")
    ap.add_argument("target", help="property id (C07, C13, C14, C15, C18) or selftest-determinism / selftest-sensitivity")
    ap.add_argument("--tier", default=os.environ.get("VERIF_TIER", "quick"), choices=["quick", "thorough"])
    ap.add_argument("--replay", default=None)
    ap.add_argument("--seed", type=int, default=None)
    ap.add_argument("--runs", type=int, default=None)
    ap.add_argument("--workers", type=int, default=None)
    ap.add_argument("--wall", type=float, default=None)
    ap.add_argument("--hashseed", type=int, default=None)
    ap.add_argument("--no-evidence", action="store_true")
    ap.add_argument("--quiet", action="store_true")
    ap.add_argument("--digests-out", default=None)
    ap.add_argument("--props", default=None, help="selftests: comma separated property ids")
    ap.add_argument("--mutants", default=None, help="selftest-sensitivity: comma separated mutant names")
    a = ap.parse_args(argv)

    vseed = a.seed if a.seed is not None else _env_seed(os.environ.get("VERIF_SEED", "0"))
    want_hs = str(a.hashseed) if a.hashseed is not None else None
    if a.replay and want_hs is None:
        try:
            import json
            with open(a.replay) as fh:
                want_hs = json.load(fh).get("hashseed")
        except Exception:
            want_hs = None
    if want_hs is None:
        want_hs = _hashseed_for(vseed)
    if os.environ.get("PYTHONHASHSEED") != str(want_hs):
        env = dict(os.environ)
        env["PYTHONHASHSEED"] = str(want_hs)
        os.execve(sys.executable, [sys.executable, os.path.abspath(__file__)] + list(argv), env)

    os.environ.setdefault("SYNKIT_VERIF", "1")
    repo = os.environ.get("DSIM_REPO")
    if repo:
        sys.path.insert(0, repo)

    print(f"[dsim] VERIF_SEED={vseed} PYTHONHASHSEED={os.environ.get('PYTHONHASHSEED')} target={a.target}", flush=True)

    if a.target.startswith("selftest"):
        from dsim import selftest
        return selftest.main(a, vseed)

    from dsim import runner

    pid = a.target.upper()
    if a.replay:
        return runner.replay(pid, a.replay, quiet=a.quiet)

    prop = runner.load_prop(pid)
    t = dict(prop.TIERS[a.tier])
    runs = a.runs if a.runs is not None else t["runs"]
    wall = a.wall if a.wall is not None else t["wall"]
    workers = a.workers if a.workers is not None else min(16, os.cpu_count() or 1)
    return runner.batch(pid, a.tier, vseed, runs, workers, wall, t.get("chunk", 50),
                        write_evidence=not a.no_evidence, quiet=a.quiet, digests_out=a.digests_out)


if __name__ == "__main__":
    sys.exit(main(sys.argv[1:]))
