"""Simulated process pools: stand-ins for joblib.Parallel and
concurrent.futures.ProcessPoolExecutor.

Model (copied from loky / ProcessPoolExecutor semantics):
  * n_jobs == 1  -> tasks run sequentially in the caller's process, nothing is pickled;
  * otherwise tasks are cut into contiguous batches, each batch is serialised ONCE
    (objects shared inside a batch stay shared, different batches get distinct copies),
    executed by one of n simulated workers under that worker's own address space
    (SimAllocator), and the results are pickled back;
  * workers share no memory, so task-granular interleaving is a complete abstraction
    of process-level schedules; the scheduler picks batch sizes, batch->worker
    assignment, completion order, worker recycling, GC points and worker crashes.
Known abstraction gap: simulated workers share the parent's module-level state.
"""
from __future__ import annotations

import concurrent.futures as cf
import pickle
from typing import Any, Callable, Dict, Iterable, Iterator, List, Optional, Tuple

import cloudpickle

from .kernel import Sim
from .seams import SimAllocator, MODSTATE

try:  # the exception class real loky raises when a worker dies
    from joblib.externals.loky.process_executor import TerminatedWorkerError
except Exception:  # pragma: no cover
    class TerminatedWorkerError(RuntimeError):  # type: ignore
        pass


class TaskError:
    """Result slot of a task (chunk) that raised in its worker; re-raised where the caller collects that result."""

    def __init__(self, exc: BaseException):
        self.exc = exc


class _Worker:
    def __init__(self, world: "World", name: str):
        self.name = name
        self.alloc = world.new_alloc(name)
        self.batches_done = 0
        self.modstate = MODSTATE.fresh()  # a new process imports the modules afresh


class World:
    """Everything the simulated environment consists of for one run."""

    def __init__(self, sim: Sim):
        self.sim = sim
        self.main_alloc = SimAllocator(sim, "main")
        self.cur_alloc = self.main_alloc
        self.rng = sim.rng("pool")
        self.alloc_policy = (0.0, "lifo", 0.0)
        self.pool_cfg: Dict[str, Any] = {"batches": "auto", "order": "fifo", "recycle_p": 0.0,
                                         "crash_at": None, "gc_p": 0.0}
        self.depth = 0
        self.batch_counter = 0
        self._loky: Dict[Tuple[int, str], List[_Worker]] = {}
        self._n_workers_made = 0
        self.on_parallel_call: List[Callable[[int, int], None]] = []  # (n_jobs, n_tasks)
        self.modstate = MODSTATE.fresh()   # the parent process of this run starts from import-time state
        MODSTATE.bind(self.modstate)
        MODSTATE.clear_function_caches()

    # -- identity seam -----------------------------------------------------
    def id_fn(self) -> Callable[[Any], int]:
        import sys
        grc = sys.getrefcount
        world = self

        def sim_id(o: Any) -> int:
            rc = grc(o) - 1  # evaluated before `o` is pushed as a call argument
            return world.cur_alloc._id(o, rc)

        return sim_id

    def new_alloc(self, name: str) -> SimAllocator:
        self._n_workers_made += 1
        # every process has the same virtual address range: ids seen in a worker may coincide with ids that
        # were pickled into it from the parent (stale keys of a shipped cache)
        a = SimAllocator(self.sim, name, base=0x10000)
        a.set_policy(*self.alloc_policy)
        a.hooks_on_assign = self.main_alloc.hooks_on_assign
        return a

    def set_alloc_policy(self, p_reuse: float, pick: str, gc_p: float) -> None:
        self.alloc_policy = (p_reuse, pick, gc_p)
        self.main_alloc.set_policy(p_reuse, pick, gc_p)
        for ws in self._loky.values():
            for w in ws:
                w.alloc.set_policy(p_reuse, pick, gc_p)

    def reseed(self, s: int) -> None:
        import random
        self.rng = random.Random(int(s) ^ 0xA11C)
        self.main_alloc.reseed(s)
        for ws in self._loky.values():
            for k, w in enumerate(ws):
                w.alloc.reseed(int(s) + 7919 * (k + 1))

    # -- worker sets -------------------------------------------------------
    def workers(self, kind: str, n: int, fresh: bool = False) -> List[_Worker]:
        key = (self.depth, kind + ":" + self.cur_alloc.name)
        ws = [] if fresh else self._loky.get(key, [])
        while len(ws) < n:
            ws.append(_Worker(self, f"{kind}{self.depth}.{len(ws)}@{self.cur_alloc.name}#{self._n_workers_made}"))
        if not fresh:
            self._loky[key] = ws
        return ws[:n]

    def recycle(self, ws: List[_Worker], idx: int, kind: str) -> None:
        ws[idx] = _Worker(self, f"{kind}{self.depth}.{idx}r@{self.cur_alloc.name}#{self._n_workers_made}")
        self.sim.fault("worker_recycle")

    # -- batching ----------------------------------------------------------
    def cut(self, n_tasks: int, n_workers: int) -> List[Tuple[int, int]]:
        spec = self.pool_cfg.get("batches", "auto")
        out: List[Tuple[int, int]] = []
        i = 0
        k = 0
        while i < n_tasks:
            if spec == "auto":
                size = self.rng.choice([1, 1, 1, 2, 2, 3, 4, 8])
            elif spec == "one":
                size = 1
            elif spec == "all":
                size = n_tasks
            else:
                size = max(1, int(spec[k % len(spec)]))
            out.append((i, min(n_tasks, i + size)))
            i += size
            k += 1
        if len(out) > 1:
            self.sim.fault("batch_boundary", len(out) - 1)
        return out

    def run_pool(self, tasks: List[Tuple[Callable, tuple, dict]], n_workers: int, kind: str,
                 dumps: Callable[[Any], bytes], fresh_workers: bool,
                 batches: Optional[List[Tuple[int, int]]] = None, capture: bool = False) -> Tuple[List[Any], List[int]]:
        """Execute tasks on simulated workers. Returns (results by index, completion order of indices)."""
        sim = self.sim
        n = len(tasks)
        if batches is None:
            batches = self.cut(n, n_workers)
        payloads = [dumps(tasks[a:b]) for a, b in batches]
        want = max(1, min(n_workers, len(batches)))
        if isinstance(fresh_workers, list):  # an executor-owned worker list (lives as long as the executor)
            while len(fresh_workers) < want:
                fresh_workers.append(_Worker(self, f"{kind}{self.depth}.{len(fresh_workers)}@{self.cur_alloc.name}#{self._n_workers_made}"))
            ws = fresh_workers
            ws_n = want
        else:
            ws = self.workers(kind, want, fresh=fresh_workers)
            ws_n = len(ws)
        # assignment: each batch goes to a seeded worker; a worker runs its batches in dispatch order
        queues: List[List[int]] = [[] for _ in range(ws_n)]
        for bi in range(len(batches)):
            queues[self.rng.randrange(ws_n)].append(bi)
        order = self.pool_cfg.get("order", "fifo")
        results: List[Any] = [None] * n
        completion: List[int] = []
        completion_b: List[int] = []
        remaining = sum(len(q) for q in queues)
        while remaining:
            cand = [wi for wi, q in enumerate(queues) if q]
            if order == "fifo":
                wi = min(cand, key=lambda w: queues[w][0])
            elif order == "lifo":
                wi = max(cand, key=lambda w: queues[w][0])
            else:
                wi = self.rng.choice(cand)
            bi = queues[wi].pop(0)
            remaining -= 1
            if completion_b and bi < max(completion_b):
                sim.fault("completion_reorder")
            completion_b.append(bi)
            self.batch_counter += 1
            crash_at = self.pool_cfg.get("crash_at")
            if crash_at is not None and self.batch_counter == crash_at:
                sim.fault("worker_crash")
                self.pool_cfg["crash_at"] = None
                raise TerminatedWorkerError("simulated: a worker process was terminated abruptly")
            w = ws[wi]
            a, b = batches[bi]
            prev_alloc, prev_depth = self.cur_alloc, self.depth
            prev_state = MODSTATE.current() if w.modstate else None
            self.cur_alloc, self.depth = w.alloc, self.depth + 1
            if w.modstate:
                MODSTATE.bind(w.modstate)
            try:
                items = pickle.loads(payloads[bi])
                outs = []
                failed = None
                for (f, args, kwargs) in items:
                    sim.step()
                    if not capture:
                        outs.append(f(*args, **kwargs))
                        continue
                    try:
                        outs.append(f(*args, **kwargs))
                    except Exception as e:  # as a real pool: the chunk's result IS the exception, delivered when it is collected
                        failed = TaskError(e)
                        break
                back = [failed] * len(items) if failed is not None else pickle.loads(dumps(outs))
                del items, outs
                if self.pool_cfg.get("gc_p", 0.0) > 0 and self.rng.random() < self.pool_cfg["gc_p"]:
                    w.alloc.collect()
            finally:
                self.cur_alloc, self.depth = prev_alloc, prev_depth
                if prev_state is not None:
                    MODSTATE.bind(prev_state)
            w.batches_done += 1
            for k, r in zip(range(a, b), back):
                results[k] = r
                completion.append(k)
            if self.pool_cfg.get("recycle_p", 0.0) > 0 and self.rng.random() < self.pool_cfg["recycle_p"]:
                self.recycle(ws, wi, kind)
        return results, completion


def make_parallel(world: World):
    """Class standing in for joblib.Parallel, bound to `world`."""

    class SimParallel:
        def __init__(self, n_jobs: Optional[int] = None, backend: Any = None, return_as: str = "list",
                     verbose: int = 0, timeout: Any = None, pre_dispatch: Any = "2 * n_jobs",
                     batch_size: Any = "auto", temp_folder: Any = None, max_nbytes: Any = "1M",
                     mmap_mode: Any = "r", prefer: Any = None, require: Any = None, **kw: Any):
            self.n_jobs = n_jobs
            self.backend = backend
            self.prefer = prefer
            self.require = require
            self.return_as = return_as
            self.batch_size = batch_size
            if return_as not in ("list", "generator", "generator_unordered"):
                raise ValueError(f"Expected `return_as` parameter to be a string equal to 'list','generator' or 'generator_unordered', but got {return_as} instead.")

        def __enter__(self):
            return self

        def __exit__(self, *exc):
            return False

        def _effective(self) -> int:
            n = self.n_jobs
            if n is None:
                return 1
            if n == 0:
                raise ValueError("n_jobs == 0 in Parallel has no meaning")
            if n < 0:
                return max(1, 8 + 1 + n)  # simulated 8-core box
            return n

        def __call__(self, iterable: Iterable[Tuple[Callable, tuple, dict]]):
            sim = world.sim
            tasks = list(iterable)
            n_jobs = self._effective()
            for h in world.on_parallel_call:
                h(n_jobs, len(tasks))
            threads = self.backend == "threading" or (self.backend is None and (self.prefer == "threads" or self.require == "sharedmem"))
            if n_jobs == 1 or not tasks:
                results = [f(*a, **k) for (f, a, k) in tasks]
                completion = list(range(len(tasks)))
            elif threads:
                # shared memory: any serial order of the tasks is a legal schedule
                idx = list(range(len(tasks)))
                world.rng.shuffle(idx)
                results = [None] * len(tasks)
                for i in idx:
                    f, a, k = tasks[i]
                    results[i] = f(*a, **k)
                completion = idx
            else:
                sim.probe("process_pool_used")
                batches = None
                if isinstance(self.batch_size, int):
                    bs = max(1, self.batch_size)
                    batches = [(i, min(len(tasks), i + bs)) for i in range(0, len(tasks), bs)]
                results, completion = world.run_pool(tasks, n_jobs, "loky", cloudpickle.dumps,
                                                     fresh_workers=False, batches=batches)
            if self.return_as == "list":
                return results
            if self.return_as == "generator":
                return iter(results)
            sim.probe("unordered_backend_requested")
            return iter([results[i] for i in completion])

    return SimParallel


def make_pool(world: World):
    """Class standing in for concurrent.futures.ProcessPoolExecutor, bound to `world`."""

    class _Fut(cf.Future):
        def __init__(self, pool: "SimProcessPool", idx: int):
            super().__init__()
            self._pool = pool
            self._idx = idx

        def result(self, timeout: Any = None):
            if not self.done():
                self._pool._drain(until=self)
            return super().result(timeout=0)

        def exception(self, timeout: Any = None):
            if not self.done():
                self._pool._drain(until=self)
            return super().exception(timeout=0)

    class SimProcessPool:
        def __init__(self, max_workers: Optional[int] = None, mp_context: Any = None,
                     initializer: Any = None, initargs: tuple = (), **kw: Any):
            if max_workers is not None and max_workers <= 0:
                raise ValueError("max_workers must be greater than 0")
            self._n = max_workers or 8
            self._pending: List[Tuple[_Fut, Callable, tuple, dict]] = []
            self._shutdown = False
            self._init = (initializer, initargs)
            self._workers_key = f"ppe{id(self)}"
            self._ws: List[_Worker] = []

        def __enter__(self):
            return self

        def __exit__(self, *exc):
            self.shutdown(wait=True)
            return False

        def _run(self, tasks):
            world.sim.probe("process_pool_used")
            res, comp = world.run_pool(tasks, self._n, "ppe", pickle.dumps, fresh_workers=self._ws,
                                       batches=None)
            return res, comp

        def map(self, fn: Callable, *iterables: Iterable, timeout: Any = None, chunksize: int = 1) -> Iterator[Any]:
            if self._shutdown:
                raise RuntimeError("cannot schedule new futures after shutdown")
            if chunksize < 1:
                raise ValueError("chunksize must be >= 1.")
            args = list(zip(*iterables))
            tasks = [(fn, a, {}) for a in args]
            if not tasks:
                return iter([])
            batches = [(i, min(len(tasks), i + chunksize)) for i in range(0, len(tasks), chunksize)]
            world.sim.probe("process_pool_used")
            res, comp = world.run_pool(tasks, self._n, "ppe", pickle.dumps, fresh_workers=self._ws, batches=batches, capture=True)

            def collect() -> Iterator[Any]:
                # results come back lazily and in order; the first failed one raises and ends the stream
                for r in res:
                    if isinstance(r, TaskError):
                        raise r.exc
                    yield r
            return collect()

        def submit(self, fn: Callable, /, *args: Any, **kwargs: Any) -> cf.Future:
            if self._shutdown:
                raise RuntimeError("cannot schedule new futures after shutdown")
            fut = _Fut(self, len(self._pending))
            self._pending.append((fut, fn, args, kwargs))
            return fut

        def _drain(self, until: Optional[cf.Future] = None) -> None:
            while self._pending:
                k = world.rng.randrange(len(self._pending)) if world.pool_cfg.get("order") == "rand" else 0
                fut, fn, args, kwargs = self._pending.pop(k)
                if fut.cancelled():
                    continue
                fut.set_running_or_notify_cancel()
                try:
                    res, _ = world.run_pool([(fn, args, kwargs)], 1, "ppe", pickle.dumps, fresh_workers=self._ws,
                                            batches=[(0, 1)])
                    fut.set_result(res[0])
                except BaseException as e:  # noqa
                    fut.set_exception(e)
                if until is not None and fut is until:
                    return

        def shutdown(self, wait: bool = True, *, cancel_futures: bool = False) -> None:
            if cancel_futures:
                for fut, *_ in self._pending:
                    fut.cancel()
                self._pending = []
            self._drain()
            self._shutdown = True

    return SimProcessPool
