"""Operation lists: delta-debugging shrinker and replay-file I/O.

A *case* is a JSON-serialisable dict {"cfg": {...}, "ops": [ {...}, ... ]}.
Every op is total (executable in any state), so any sub-list is a valid case.
"""
from __future__ import annotations

import copy
import json
import os
from typing import Any, Callable, Dict, Iterable, List, Optional, Tuple

Case = Dict[str, Any]


def ddmin_ops(case: Case, fails: Callable[[Case], bool], budget: int = 400) -> Case:
    """Classic ddmin over case["ops"]; `fails(candidate)` must be deterministic."""
    ops = list(case["ops"])
    used = [0]

    def test(sub: List[Any]) -> bool:
        if used[0] >= budget:
            return False
        used[0] += 1
        c = dict(case)
        c["ops"] = sub
        return fails(c)

    n = 2
    while len(ops) >= 2 and used[0] < budget:
        chunk = max(1, len(ops) // n)
        subsets = [ops[i:i + chunk] for i in range(0, len(ops), chunk)]
        reduced = False
        # try complements (remove one chunk)
        for i in range(len(subsets)):
            comp = [x for j, s in enumerate(subsets) if j != i for x in s]
            if comp and test(comp):
                ops = comp
                n = max(n - 1, 2)
                reduced = True
                break
        if not reduced:
            if chunk == 1:
                break
            n = min(len(ops), n * 2)
    # final single-op elimination pass
    i = 0
    while i < len(ops) and used[0] < budget and len(ops) > 1:
        cand = ops[:i] + ops[i + 1:]
        if test(cand):
            ops = cand
        else:
            i += 1
    out = dict(case)
    out["ops"] = ops
    return out


def shrink(
    case: Case,
    fails: Callable[[Case], bool],
    simplifiers: Optional[Callable[[Case], Iterable[Case]]] = None,
    budget: int = 400,
    fault_ops: Tuple[str, ...] = (),
) -> Case:
    """drop fault ops -> ddmin -> operand simplification (greedy, to fixpoint)."""
    best = copy.deepcopy(case)
    spent = [0]

    def f(c: Case) -> bool:
        spent[0] += 1
        return fails(c)

    if fault_ops:
        nofault = dict(best)
        nofault["ops"] = [o for o in best["ops"] if o.get("op") not in fault_ops]
        if len(nofault["ops"]) < len(best["ops"]) and nofault["ops"] and f(nofault):
            best = nofault
    best = ddmin_ops(best, f, budget=budget)
    if simplifiers is not None:
        progress = True
        rounds = 0
        while progress and spent[0] < 2 * budget and rounds < 8:
            progress = False
            rounds += 1
            for cand in simplifiers(best):
                if spent[0] >= 2 * budget:
                    break
                if cand != best and f(cand):
                    best = cand
                    progress = True
                    break
    return best


def write_replay(path: str, doc: Dict[str, Any]) -> None:
    os.makedirs(os.path.dirname(path), exist_ok=True)
    tmp = path + ".tmp"
    with open(tmp, "w") as fh:
        json.dump(doc, fh, indent=1, sort_keys=True)
    os.replace(tmp, path)


def read_replay(path: str) -> Dict[str, Any]:
    with open(path) as fh:
        return json.load(fh)
