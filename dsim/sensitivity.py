"""Sensitivity self-test (dev tool, not a registered check).

Each /verif/mutants/<PID>-<name>.patch is applied to a scratch copy of /repo/synkit under
/tmp/dsim-mut-XXXX (put first on sys.path via DSIM_REPO, removed afterwards); the property's
check must report a VIOLATION within the quick budget; the unpatched copy must stay silent.
"""
from __future__ import annotations

import glob
import os
import shutil
import subprocess
import sys
import tempfile
from typing import List, Optional

VERIF = os.path.dirname(os.path.dirname(os.path.abspath(__file__)))
CLI = os.path.join(VERIF, "dsim", "cli.py")
REPO = "/repo"


def _run(pid: str, scratch: Optional[str], vseed: int, runs: Optional[int]) -> subprocess.CompletedProcess:
    env = dict(os.environ)
    if scratch:
        env["DSIM_REPO"] = scratch
    else:
        env.pop("DSIM_REPO", None)
    env.pop("PYTHONHASHSEED", None)
    cmd = [sys.executable, CLI, pid, "--tier", "quick", "--seed", str(vseed), "--no-evidence"]
    if runs:
        cmd += ["--runs", str(runs)]
    return subprocess.run(cmd, capture_output=True, text=True, env=env, cwd=VERIF, timeout=1800)


def main(props: List[str], only: Optional[List[str]], vseed: int) -> int:
    patches = sorted(glob.glob(os.path.join(VERIF, "mutants", "*.patch")))
    missed = 0
    for p in patches:
        name = os.path.basename(p)[:-6]
        pid = name.split("-")[0].upper()
        if pid not in props or (only and name not in only):
            continue
        scratch = tempfile.mkdtemp(prefix="dsim-mut-")
        try:
            shutil.copytree(os.path.join(REPO, "synkit"), os.path.join(scratch, "synkit"),
                            ignore=shutil.ignore_patterns("__pycache__"))
            ap = subprocess.run(["patch", "-p1", "-s", "-d", scratch, "-i", p], capture_output=True, text=True)
            if ap.returncode != 0:
                print(f"[sensitivity] {name}: PATCH DOES NOT APPLY ({ap.stdout.strip()[:200]} {ap.stderr.strip()[:200]})", flush=True)
                missed += 1
                continue
            r = _run(pid, scratch, vseed, None)
            caught = r.returncode == 1 and "VIOLATION property=" + pid in r.stdout
            sigs = [l.strip() for l in r.stdout.splitlines() if l.strip().startswith("signature=")]
            print(f"[sensitivity] {name}: {'CAUGHT' if caught else 'MISSED (exit %d)' % r.returncode} "
                  f"{sigs[0][:160] if sigs else ''}", flush=True)
            if not caught:
                missed += 1
                print(r.stdout[-800:], r.stderr[-800:])
        finally:
            shutil.rmtree(scratch, ignore_errors=True)
    return 0 if missed == 0 else 2
