"""A second interpreter ("the process that reads what the first one stored"): started by a check with ANOTHER
PYTHONHASHSEED, it answers canonicalisation requests line by line. Real code, real allocator, no seams.

Run as a file path. Terminates on EOF of stdin (i.e. when the process that started it goes away).
"""
import json
import os
import sys

HERE = os.path.dirname(os.path.abspath(__file__))
VERIF = os.path.dirname(HERE)
if VERIF not in sys.path:
    sys.path.insert(0, VERIF)
_repo = os.environ.get("DSIM_REPO")
if _repo:
    sys.path.insert(0, _repo)


def main() -> int:
    from dsim.props import c18
    from synkit.CRN.Topo.canon import CRNCanonicalizer

    print(json.dumps({"ready": True, "hashseed": os.environ.get("PYTHONHASHSEED")}), flush=True)
    for line in sys.stdin:
        line = line.strip()
        if not line:
            continue
        try:
            req = json.loads(line)
            bip, sto, iid = req["flags"]
            H = c18.build_net(req["net"])
            s = CRNCanonicalizer(H, include_rule=bip, include_stoich=sto, integer_ids=iid).summary()
            out = {"sig": repr(c18.canon_sig(s["canon_graph"], bip, sto)), "early": bool(s["early_stop"])}
        except Exception as ex:  # reported to the requester, which decides
            out = {"error": repr(ex)}
        print(json.dumps(out), flush=True)
    return 0


if __name__ == "__main__":
    sys.exit(main())
