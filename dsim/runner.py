"""Batch runner: fork pool over seeds, watchdog, shrinking, replay files,
evidence aggregation, exit codes (0 held / 1 violation / 2 harness error).

The runner itself is outside the simulation: it may read the real clock (wall
budget, runs/hour) but nothing it reads is visible to a simulated run.
"""
from __future__ import annotations

import concurrent.futures as cf
import faulthandler
import gc
import importlib
import json
import multiprocessing as mp
import os
import subprocess
import sys
import time
import traceback
from typing import Any, Dict, List, Optional, Tuple

import networkx as nx

from . import findings
from .kernel import Sim, Violation, StepCap, derive, merge_counts, cjson
from .oplist import shrink, write_replay, read_replay

VERIF = os.path.dirname(os.path.dirname(os.path.abspath(__file__)))
PY = sys.executable


class KnownStop(Exception):
    """Raised by a property to end a run after a tolerated (known) finding."""


def _sut_exception(exc: BaseException) -> Optional[str]:
    """If the exception was raised underneath SynKit code (and not by harness code that SynKit called back
    into), return '<module>.<function>' of the outermost SynKit frame, else None."""
    frames = traceback.extract_tb(exc.__traceback__)
    if not frames:
        return None
    deepest = frames[-1].filename.replace("\\", "/")
    if "/dsim/" in deepest:
        return None
    for fr in frames:
        fn = fr.filename.replace("\\", "/")
        if "/synkit/" in fn:
            mod = fn.split("/synkit/", 1)[1].rsplit(".", 1)[0].replace("/", ".")
            return f"synkit.{mod}.{fr.name}"
    return None


def load_prop(pid: str):
    return importlib.import_module("dsim.props." + pid.lower())


# ---------------------------------------------------------------------------
# One run
# ---------------------------------------------------------------------------


_REFUSALS = (ValueError, TypeError, AttributeError, NotImplementedError, nx.NetworkXException)


def run_case(prop, case: Dict[str, Any], seed: int, known: Dict[Tuple, str], keep_log: bool = False) -> Dict[str, Any]:
    sim = Sim(seed, keep_log=keep_log, step_cap=getattr(prop, "STEP_CAP", 2_000_000))
    sim.known_sigs = known  # type: ignore[attr-defined]

    def tolerate(v: Violation) -> bool:
        if v.signature in known:
            sim.known.append((v.signature, v.detail))
            return True
        return False

    sim.tolerate = tolerate  # type: ignore[attr-defined]
    res: Dict[str, Any] = {"seed": seed, "verdict": "ok"}
    try:
        prop.execute(case, sim)
    except KnownStop:
        pass
    except Violation as v:
        if tolerate(v):
            pass
        else:
            res["verdict"] = "violation"
            res["sig"] = list(v.signature)
            res["detail"] = cjson(v.detail)[:4000]
    except StepCap as e:
        res["verdict"] = "error"
        res["error"] = "StepCap: " + str(e)
    except Exception as exc:
        sut = _sut_exception(exc)
        if sut is not None and sim.exotic and isinstance(exc, _REFUSALS):
            # an unusual input was refused by the library: allowed (the run ends here, nothing wrong was returned)
            sim.probe("exotic_input_refused:" + str(sim.exotic))
            sim.event("refused", [str(sim.exotic), type(exc).__name__])
        elif sut is not None:
            # the library raised on an input / history the property covers: a violation (with replay), not a harness error
            v = Violation(getattr(prop, "PROP", "?"), sut, "unexpected_exception", type(exc).__name__,
                          {"exception": repr(exc)[:300], "traceback_tail": traceback.format_exc()[-900:]})
            if not tolerate(v):
                res["verdict"] = "violation"
                res["sig"] = list(v.signature)
                res["detail"] = cjson(v.detail)[:4000]
        else:
            res["verdict"] = "error"
            res["error"] = traceback.format_exc()[-3000:]
    res["digest"] = sim.digest
    res["faults"] = sim.faults
    res["probes"] = sim.probes
    res["states"] = sorted(sim.states)
    res["sim_seconds"] = sim.sim_seconds
    res["n_ops"] = len(case.get("ops", []))
    res["n_events"] = sim.n_events
    res["known"] = [[list(s), cjson(d)[:300]] for s, d in sim.known[:5]]
    if keep_log:
        res["log"] = sim.log
    return res


def run_seed(prop, seed: int, tier: str, known: Dict[Tuple, str], want_case: bool = False) -> Dict[str, Any]:
    case = prop.generate(seed, tier)
    res = run_case(prop, case, seed, known)
    if want_case or res["verdict"] != "ok":
        res["case"] = case
    return res


_FROZEN = False


def _freeze_heap() -> None:
    """Move everything allocated so far (imports, corpora) to the permanent generation so that the
    scheduled gc.collect() calls of the simulation only scan objects created by the runs themselves."""
    global _FROZEN
    if not _FROZEN:
        gc.collect()
        gc.freeze()
        _FROZEN = True


def _chunk(pid: str, seeds: List[int], tier: str, sample_first: bool, timeout_s: float) -> List[Dict[str, Any]]:
    faulthandler.dump_traceback_later(timeout_s, exit=True)
    try:
        prop = load_prop(pid)
        _freeze_heap()
        known = findings.load(pid)
        out = []
        for k, s in enumerate(seeds):
            r = run_seed(prop, s, tier, known, want_case=(sample_first and k == 0))
            # keep payload small
            if len(r.get("states", [])) > 512:
                r["states"] = r["states"][:512]
            out.append(r)
        return out
    finally:
        faulthandler.cancel_dump_traceback_later()


# ---------------------------------------------------------------------------
# Batch
# ---------------------------------------------------------------------------


def batch(
    pid: str,
    tier: str,
    vseed: int,
    n_runs: int,
    workers: int,
    wall_cap: float,
    chunk_size: int,
    write_evidence: bool = True,
    quiet: bool = False,
    digests_out: Optional[str] = None,
) -> int:
    prop = load_prop(pid)
    known = findings.load(pid)
    t0 = time.time()
    seeds = [derive(vseed, pid, i) for i in range(n_runs)]
    chunks = [seeds[i:i + chunk_size] for i in range(0, len(seeds), chunk_size)]
    chunk_timeout = float(getattr(prop, "CHUNK_TIMEOUT", 600))
    print(f"[dsim] property={pid} tier={tier} VERIF_SEED={vseed} PYTHONHASHSEED={os.environ.get('PYTHONHASHSEED')} "
          f"runs={n_runs} workers={workers} wall_cap={wall_cap:.0f}s", flush=True)

    agg_faults: Dict[str, int] = {}
    agg_probes: Dict[str, int] = {}
    states: set = set()
    digests_nontrivial: set = set()
    digests_all: Dict[int, str] = {}
    digest_set: set = set()
    sim_seconds = 0.0
    n_done = 0
    n_ops = 0
    errors: List[Dict[str, Any]] = []
    violations: List[Dict[str, Any]] = []
    known_seen: Dict[Tuple, int] = {}
    known_example: Dict[Tuple, str] = {}
    samples: List[Any] = []
    capped = False
    first_digests: Dict[int, str] = {}
    recheck_n = 24 if tier == "quick" else 160
    recheck_done = 0
    recheck_bad: List[int] = []

    if hasattr(prop, "warm"):
        prop.warm()  # load corpora before forking so children share them
    gc.collect()
    ctx = mp.get_context("fork")
    ex = cf.ProcessPoolExecutor(max_workers=workers, mp_context=ctx)
    pending: Dict[Any, int] = {}
    next_chunk = 0
    broken = None
    try:
        while next_chunk < len(chunks) or pending:
            while next_chunk < len(chunks) and len(pending) < workers * 2:
                if time.time() - t0 > wall_cap:
                    capped = True
                    next_chunk = len(chunks)
                    break
                fut = ex.submit(_chunk, pid, chunks[next_chunk], tier, next_chunk < 4, chunk_timeout)
                pending[fut] = next_chunk
                next_chunk += 1
            if not pending:
                break
            done, _ = cf.wait(list(pending), timeout=5.0, return_when=cf.FIRST_COMPLETED)
            for fut in done:
                pending.pop(fut)
                try:
                    results = fut.result()
                except Exception as e:  # BrokenProcessPool, watchdog exit, ...
                    broken = f"{type(e).__name__}: {e}"
                    raise
                for r in results:
                    n_done += 1
                    n_ops += r["n_ops"]
                    if digests_out:
                        digests_all[r["seed"]] = r["digest"] + "|" + r["verdict"]
                    digest_set.add(int(r["digest"][:16], 16))
                    if len(first_digests) < 4 * recheck_n and r["verdict"] == "ok":
                        first_digests[r["seed"]] = r["digest"]
                    merge_counts(agg_faults, r["faults"])
                    merge_counts(agg_probes, r["probes"])
                    if len(states) < 2_000_000:
                        states.update(r["states"])
                    sim_seconds += r["sim_seconds"]
                    if r["faults"] and r["probes"]:
                        digests_nontrivial.add(int(r["digest"][:16], 16))
                    for s, d in r["known"]:
                        key = tuple(s)
                        known_seen[key] = known_seen.get(key, 0) + 1
                        known_example.setdefault(key, d)
                    if r["verdict"] == "violation":
                        violations.append(r)
                    elif r["verdict"] == "error":
                        errors.append(r)
                    if "case" in r and r["verdict"] == "ok" and len(samples) < 3:
                        samples.append({"seed": r["seed"], "cfg": r["case"].get("cfg"), "ops": r["case"]["ops"][:25]})
        # determinism re-check inside every batch: a sample of seeds is executed again (other child,
        # other position in its chunk, other heap history) and must give the same event digest
        if not broken and first_digests:
            sample = sorted(first_digests)[:: max(1, len(first_digests) // recheck_n)][:recheck_n]
            futs = [ex.submit(_chunk, pid, list(reversed(sample[i::4])), tier, False, chunk_timeout) for i in range(4)]
            for fut in futs:
                for r in fut.result():
                    recheck_done += 1
                    if r["digest"] != first_digests.get(r["seed"]):
                        recheck_bad.append(r["seed"])
    except Exception as e:
        broken = broken or f"{type(e).__name__}: {e}"
    finally:
        for p in list(getattr(ex, "_processes", {}).values() or []):
            try:
                if broken or capped:
                    p.terminate()
            except Exception:
                pass
        ex.shutdown(wait=not (broken or capped), cancel_futures=True)

    wall = time.time() - t0
    rc = 0
    out_lines: List[str] = []

    # known findings (tolerated signatures)
    for sig, n in sorted(known_seen.items()):
        what = known.get(sig, "")
        out_lines.append(f"KNOWN-FINDING: property={pid} site={sig[1]} class={sig[2]} cond={sig[3]!r} ({what}) seen_in_runs={n}")

    # unlisted violations -> shrink + replay files
    reported: Dict[Tuple, str] = {}
    if violations:
        by_sig: Dict[Tuple, List[Dict[str, Any]]] = {}
        for r in violations:
            by_sig.setdefault(tuple(r["sig"]), []).append(r)
        for n_sig, (sig, rs) in enumerate(sorted(by_sig.items())):
            rs.sort(key=lambda r: (r["n_ops"], r["seed"]))
            r = rs[0]
            path = shrink_and_write(prop, pid, r["case"], r["seed"], list(sig), known, vseed,
                                    do_shrink=(n_sig < 6))
            reported[sig] = path
            out_lines.append(f"VIOLATION property={pid} replay={path}")
            out_lines.append(f"  signature={list(sig)} runs_with_this_signature={len(rs)} detail={r.get('detail', '')[:500]}")
        rc = 1

    if recheck_bad:
        broken = (broken or "") + f" determinism re-check failed for seeds {recheck_bad[:5]}"
    if errors or broken:
        for r in errors[:3]:
            print(f"[dsim] HARNESS ERROR seed={r['seed']}:\n{r.get('error')}", file=sys.stderr)
        if broken:
            print(f"[dsim] HARNESS ERROR pool: {broken}", file=sys.stderr)
        if rc == 0:
            rc = 2

    if write_evidence and n_done > 0:
        ev = {
            "property_id": pid,
            "tier": tier,
            "seed": int(vseed),
            "level": "exploration",
            "coverage": {
                "evaluations": n_done,
                "distinct_nontrivial": len(digests_nontrivial),
                "rule": getattr(prop, "RULE", ""),
                "samples": samples or [{"note": "no sample captured"}],
                "technique": "deterministic simulation with fault injection (seeded search over op+fault schedules)",
                "operations_executed": n_ops,
                "fault_kinds_fired": dict(sorted(agg_faults.items())),
                "probes_hit": dict(sorted(agg_probes.items())),
                "probes_expected": list(getattr(prop, "PROBES", [])),
                "probes_stuck_at_zero": [p for p in getattr(prop, "PROBES", []) if not agg_probes.get(p)],
                "distinct_abstract_states": len(states),
                "distinct_event_digests": len(digest_set),
                "runs_per_hour": int(n_done / max(wall, 1e-9) * 3600),
                "seeds_per_hour": int(n_done / max(wall, 1e-9) * 3600),
                "simulated_seconds": round(sim_seconds, 3),
                "harness_workers": workers,
                "wall_cap_reached": capped,
                "runs_requested": n_runs,
                "real_components": list(getattr(prop, "REAL", [])),
                "stub_components": list(getattr(prop, "STUB", [])),
                "known_findings_seen": {"|".join(k): v for k, v in sorted(known_seen.items())},
                "harness_errors": len(errors) + (1 if broken else 0),
                "determinism_recheck": {"seeds_rerun_in_other_children": recheck_done, "digest_mismatches": len(recheck_bad)},
                "pythonhashseed": os.environ.get("PYTHONHASHSEED"),
                "exhaustive": False,
            },
            "assumptions": list(getattr(prop, "ASSUMPTIONS", [])),
            "wall_s": round(wall, 3),
            "violations": len(reported),
        }
        os.makedirs(os.path.join(VERIF, "evidence"), exist_ok=True)
        p = os.path.join(VERIF, "evidence", f"{pid}.json")
        with open(p + ".tmp", "w") as fh:
            json.dump(ev, fh, indent=1, sort_keys=True)
        os.replace(p + ".tmp", p)

    if digests_out:
        with open(digests_out, "w") as fh:
            json.dump({str(k): v for k, v in sorted(digests_all.items())}, fh)

    for line in out_lines:
        print(line, flush=True)
    if not quiet:
        print(f"[dsim] done property={pid} runs={n_done}/{n_runs} ops={n_ops} wall={wall:.1f}s "
              f"runs/h={int(n_done / max(wall, 1e-9) * 3600)} distinct_nontrivial={len(digests_nontrivial)} "
              f"states={len(states)} faults={dict(sorted(agg_faults.items()))} probes={dict(sorted(agg_probes.items()))} "
              f"violations={len(reported)} errors={len(errors)} exit={rc}", flush=True)
    return rc


# ---------------------------------------------------------------------------
# Shrinking / replay
# ---------------------------------------------------------------------------


def shrink_and_write(prop, pid: str, case: Dict[str, Any], seed: int, sig: List[str], known, vseed: int,
                     do_shrink: bool = True) -> str:
    target = tuple(sig)
    t_end = time.time() + float(getattr(prop, "SHRINK_WALL", 45.0))

    def fails(c: Dict[str, Any]) -> bool:
        if time.time() > t_end:      # wall budget of the minimiser (outside the simulation): stop shrinking, keep what we have
            return False
        r = run_case(prop, c, seed, known)
        return r["verdict"] == "violation" and tuple(r["sig"]) == target

    try:
        small = case if not do_shrink else shrink(case, fails, getattr(prop, "simplify", None),
                       budget=int(getattr(prop, "SHRINK_BUDGET", 300)),
                       fault_ops=tuple(getattr(prop, "FAULT_OPS", ())))
    except Exception:
        small = case
    final = run_case(prop, small, seed, known, keep_log=True)
    if not (final["verdict"] == "violation" and tuple(final["sig"]) == target):
        small = case
        final = run_case(prop, small, seed, known, keep_log=True)
    doc = {
        "property": pid,
        "seed": seed,
        "verif_seed": vseed,
        "hashseed": os.environ.get("PYTHONHASHSEED"),
        "case": small,
        "signature": list(final.get("sig", sig)),
        "detail": final.get("detail", ""),
        "event_digest": final["digest"],
        "original_ops": len(case["ops"]),
        "minimised_ops": len(small["ops"]),
        "event_log": final.get("log", [])[-200:],
    }
    path = os.path.join(VERIF, "replays", pid, f"{seed}.json")
    write_replay(path, doc)
    # confirm in a fresh interpreter
    try:
        env = dict(os.environ)
        p = subprocess.run([PY, os.path.join(VERIF, "dsim", "cli.py"), pid, "--replay", path, "--quiet"],
                           capture_output=True, text=True, timeout=600, env=env, cwd=VERIF)
        doc["fresh_interpreter_replay"] = {"exit": p.returncode, "reproduced": p.returncode == 1 and "REPRODUCED" in p.stdout}
    except Exception as e:
        doc["fresh_interpreter_replay"] = {"error": str(e)}
    write_replay(path, doc)
    return path


def replay(pid: str, path: str, quiet: bool = False) -> int:
    prop = load_prop(pid)
    doc = read_replay(path)
    known = findings.load(pid)
    if hasattr(prop, "warm"):
        prop.warm()
    r = run_case(prop, doc["case"], int(doc["seed"]), known, keep_log=True)
    same_sig = r["verdict"] == "violation" and list(r["sig"]) == list(doc["signature"])
    same_digest = r["digest"] == doc.get("event_digest")
    if r["verdict"] == "violation":
        print(f"VIOLATION property={pid} replay={path}")
        print(f"  signature={r['sig']} detail={r.get('detail', '')[:800]}")
        print(f"  {'REPRODUCED' if same_sig else 'DIFFERENT-SIGNATURE'} digest_match={same_digest}")
        if not quiet:
            for line in r.get("log", [])[-40:]:
                print("   | " + line[:300])
        return 1
    if r["verdict"] == "error":
        print(f"[dsim] replay harness error:\n{r.get('error')}", file=sys.stderr)
        return 2
    for s, d in r["known"]:
        print(f"KNOWN-FINDING: property={pid} site={s[1]} class={s[2]} cond={s[3]!r}")
    print(f"[dsim] replay of {path}: no violation (digest_match={same_digest})")
    return 0
