"""Known findings: signatures of genuine defects recorded rather than repaired.

/verif/known_findings.json is committed and never written at run time.
  {"open":  [{"property","site","class","cond","what"}...],
   "fixed": ["fixed: property=<id> <commit> <what failed>", ...]}
An "open" entry tolerates exactly its signature; a "fixed" entry suppresses nothing.
"""
from __future__ import annotations

import json
import os
from typing import Dict, List, Tuple

HERE = os.path.dirname(os.path.dirname(os.path.abspath(__file__)))
PATH = os.path.join(HERE, "known_findings.json")

Sig = Tuple[str, str, str, str]


def load(prop: str) -> Dict[Sig, str]:
    try:
        with open(PATH) as fh:
            doc = json.load(fh)
    except FileNotFoundError:
        return {}
    out: Dict[Sig, str] = {}
    for e in doc.get("open", []):
        if e.get("property") == prop:
            out[(e["property"], e["site"], e["class"], e.get("cond", ""))] = e.get("what", "")
    return out
