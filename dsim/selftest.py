"""Self-tests: determinism (same seed -> same event digest across fresh interpreters,
harness worker counts and PYTHONHASHSEED) and sensitivity (known-bad mutants are caught)."""
from __future__ import annotations

import json
import os
import shutil
import subprocess
import sys
import tempfile
from typing import Dict, List

VERIF = os.path.dirname(os.path.dirname(os.path.abspath(__file__)))
CLI = os.path.join(VERIF, "dsim", "cli.py")
ALL = ["C15", "C14", "C18", "C07", "C13"]
DET_RUNS = {"C15": 600, "C14": 64, "C18": 300, "C07": 300, "C13": 120}


def _digests(pid: str, vseed: int, runs: int, workers: int, hashseed: int, extra_env=None) -> Dict[str, str]:
    fd, path = tempfile.mkstemp(prefix="dsim-dig-", suffix=".json")
    os.close(fd)
    env = dict(os.environ)
    env.pop("PYTHONHASHSEED", None)
    if extra_env:
        env.update(extra_env)
    try:
        p = subprocess.run([sys.executable, CLI, pid, "--tier", "quick", "--seed", str(vseed), "--runs", str(runs),
                            "--workers", str(workers), "--hashseed", str(hashseed), "--no-evidence", "--quiet",
                            "--wall", "3000", "--digests-out", path],
                           capture_output=True, text=True, env=env, cwd=VERIF, timeout=3400)
        if p.returncode not in (0, 1):
            raise RuntimeError(f"{pid} workers={workers} hashseed={hashseed}: exit {p.returncode}\n{p.stdout[-1500:]}\n{p.stderr[-1500:]}")
        with open(path) as fh:
            return json.load(fh)
    finally:
        try:
            os.unlink(path)
        except OSError:
            pass


def determinism(props: List[str], vseed: int) -> int:
    bad = 0
    for pid in props:
        if not os.path.exists(os.path.join(VERIF, "dsim", "props", pid.lower() + ".py")):
            continue
        n = DET_RUNS.get(pid, 100)
        a = _digests(pid, vseed, n, 16, vseed % 4294967296)
        b = _digests(pid, vseed, n, 16, vseed % 4294967296)  # same thing twice, fresh interpreters
        c = _digests(pid, vseed, max(8, n // 4), 1, vseed % 4294967296)
        d = _digests(pid, vseed, n, 4, 987654321)  # another hash seed, another worker count
        e = _digests(pid, vseed, n, 16, 987654321)  # ... and that one twice as well
        diffs = []
        for name, other in (("twice", b), ("workers=1", c)):
            for k, v in other.items():
                if a.get(k) != v:
                    diffs.append((name, k))
        for k, v in e.items():
            if d.get(k) != v:
                diffs.append(("twice under other hashseed", k))
        # across hash seeds the VERDICT must be the same; the event digest may legitimately differ where SynKit's
        # own set-iteration order changes how many steps a search takes before a simulated timeout fires
        # (species view: nodes are inserted from a set of str) - such runs replay exactly under their recorded hash seed
        hs_digest_diff = 0
        for k, v in d.items():
            if a.get(k, "|").split("|")[1] != v.split("|")[1]:
                diffs.append(("verdict differs across hashseeds", k))
            elif a.get(k) != v:
                hs_digest_diff += 1
        print(f"[selftest-determinism] {pid}: seeds={len(a)} compared twice/16w, {len(c)}/1w, {len(d)} twice under another hashseed (4w/16w) -> "
              f"{'IDENTICAL' if not diffs else 'DIFFER ' + str(diffs[:5])}; across hash seeds: verdicts equal, "
              f"{hs_digest_diff} event digests differ (hash-order-dependent step counts inside SynKit)", flush=True)
        bad += len(diffs)
    return 0 if bad == 0 else 2


def main(a, vseed: int) -> int:
    props = [p.strip().upper() for p in a.props.split(",")] if a.props else ALL
    if a.target == "selftest-determinism":
        return determinism(props, vseed)
    if a.target == "selftest-sensitivity":
        from dsim import sensitivity
        return sensitivity.main(props, a.mutants.split(",") if a.mutants else None, vseed)
    print("unknown selftest", a.target)
    return 2
