"""C15 — reaction-network store stays consistent under every history of edits.

System under simulation (real code): synkit.CRN.Hypergraph.{hypergraph,hyperedge,rxn}.
Reference model: per network  id -> (rule, reactants, products),  kept-species set,
species -> mol.  Invariants are evaluated on EVERY live network after EVERY op.
"""
from __future__ import annotations

import copy
from typing import Any, Dict, Iterable, List, Optional, Tuple

import numpy as np

from synkit.CRN.Hypergraph.hypergraph import CRNHyperGraph
from synkit.CRN.Hypergraph.rxn import RXNSide

from ..kernel import Sim, Violation, rng_for, derive
from ..seams import Seams, GCControl
from ..executor import World

PROP = "C15"
N_NETS = 3

TIERS = {
    "quick": {"runs": 70000, "wall": 75, "chunk": 400},
    "thorough": {"runs": 1500000, "wall": 840, "chunk": 1000},
}
STEP_CAP = 200000
SHRINK_BUDGET = 600
FAULT_OPS: Tuple[str, ...] = ("alloc", "gc")
PROBES = [
    "generated_id_equals_existing_explicit_id_form",
    "merge_then_edit_either_side",
    "remove_species_empties_reaction",
    "failed_op_after_state",
    "copy_then_edit_original",
    "self_merge",
    "kept_species_reused",
    "merge_id_collision",
]
REAL = ["synkit.CRN.Hypergraph.hypergraph.CRNHyperGraph (all public mutators, incidence_matrix)",
        "synkit.CRN.Hypergraph.rxn.RXNSide", "synkit.CRN.Hypergraph.hyperedge.HyperEdge"]
STUB: List[str] = ["builtin id() inside synkit modules -> SimAllocator + scheduled cyclic GC (no id() call exists on the unchanged tree; "
                   "the seam is there so that a change introducing an identity-keyed cache is simulated)"]
ASSUMPTIONS = [
    "operations that legitimately fail (duplicate explicit id, empty reaction, unknown species/edge) leave reactions and species unchanged; id counters may advance",
    "generated ids are not predicted: any id not already in use is accepted",
    "caller-side aliasing (one RXNSide object passed to two add_rxn calls) is not generated: the property does not promise defensive copies of caller objects",
    "parse_rxns is modelled as a sequence of single adds (no atomicity is promised)",
    "a species kept with prune_orphans=False may later be pruned once it has re-entered and left a reaction",
]
RULE = ("seeded op lists (add / add_from_str / parse_rxns / remove_rxn / remove_species / merge / copy / set_mol_map / "
        "assign_mol, incl. legitimately failing ops and explicit ids that look generated) over up to 3 live networks and "
        "per-run alphabets of 3-8 species, 2-4 rules, 4-60 ops; after every op all four indices, species set, mol labels "
        "and dense+sparse incidence matrix of every live network are compared with a dict model. Sides are given as mappings, pairs, "
        "label lists, RXNSide objects, one-shot generators / zip objects, label records as mapping keys, counts as strings / floats "
        "(clean refusal of the last three accepted). A run is non-trivial if "
        ">=1 failing op ('fault') fired and >=1 probe was hit; distinct = distinct event-log digests")

EXPLICIT_IDS = ["r_1", "r_2", "r_3", "R1_1", "R1_2", "R2_1", "e1", "x", "A", "r_1_1", "r_10"]
RULES = ["r", "R1", "R2", "r_1"]


# ---------------------------------------------------------------------------
# generation
# ---------------------------------------------------------------------------


def _side(rng, species: List[str], maxn: int) -> List[List[Any]]:
    n = rng.choice([0, 1, 1, 1, 2, 2, 3][: maxn + 4])
    out = []
    for _ in range(n):
        out.append([rng.choice(species), rng.choice([1, 1, 1, 2, 2, 3, 0])])
    return out


def generate(seed: int, tier: str = "quick") -> Dict[str, Any]:
    rng = rng_for(seed, "c15", "gen")
    small = rng.random() < 0.45
    n_sp = 3 if small else rng.randint(3, 8)
    n_rules = 2 if small else rng.randint(2, 4)
    deep = tier == "thorough" and rng.random() < 0.4
    n_ops = rng.randint(3, 8) if small else (rng.randint(40, 140) if deep else rng.randint(6, 60))
    species = [chr(ord("A") + i) for i in range(n_sp)]
    if not small and rng.random() < 0.3:
        species = [s + str(i) if rng.random() < 0.5 else s for i, s in enumerate(species)]
    rules = RULES[:n_rules]
    kinds = ["add", "add_str", "parse", "remove_rxn", "remove_species", "merge", "copy", "set_mol", "assign_mol"]
    w = {k: rng.choice([0, 1, 2, 4]) for k in kinds}
    w["add"] = max(w["add"], 2)
    if rng.random() < 0.5:
        w["remove_species"] = max(w["remove_species"], 2)
    if rng.random() < 0.5:
        w["merge"] = max(w["merge"], 1)
    p_explicit = rng.choice([0.0, 0.2, 0.5])
    p_bogus = rng.choice([0.0, 0.1, 0.3])
    n_nets = rng.choice([1, 2, 3])
    pop = [k for k in kinds for _ in range(w[k])]
    ops: List[Dict[str, Any]] = []
    if rng.random() < 0.5:
        ops.append({"op": "alloc", "p_reuse": rng.choice([0.3, 0.6, 1.0, 1.0]), "pick": rng.choice(["lifo", "fifo", "rand"]),
                    "gc_p": rng.choice([0.05, 0.3, 0.6]), "s": derive(seed, "alloc")})
    for i in range(n_ops):
        if rng.random() < 0.03:
            ops.append({"op": "gc"})
        k = rng.choice(pop)
        net = rng.randrange(n_nets)
        op: Dict[str, Any] = {"op": k, "net": net}
        if k in ("add", "add_str"):
            op["r"] = _side(rng, species, 2)
            op["p"] = _side(rng, species, 2)
            op["rule"] = rng.choice(rules + [None])
            if k == "add":
                op["eid"] = rng.choice(EXPLICIT_IDS) if rng.random() < p_explicit else None
                op["fmt"] = rng.choice(["map", "map", "pairs", "labels", "rxnside", "pairs_str", "map_float",
                                        "gen_labels", "gen_pairs", "zip_pairs", "map_objkeys"])
            else:
                op["style"] = rng.choice(["tight", "spaced", "star"])
                op["suffix"] = rng.random() < 0.4
                op["split"] = rng.random() < 0.4
        elif k == "parse":
            lines = []
            for _ in range(rng.randint(1, 3)):
                lines.append({"r": _side(rng, species, 2), "p": _side(rng, species, 2),
                              "rule": rng.choice(rules + [None]), "style": rng.choice(["tight", "spaced", "star"]),
                              "suffix": rng.random() < 0.4, "split": rng.random() < 0.4})
            op["lines"] = lines
            op["form"] = rng.choice(["strs", "tuples", "rules_arg", "mapping"])
            # (default_rule is not varied: on the pinned tree parse_rxns ignores it unless parse_rule_from_suffix=False,
            #  contrary to its docstring - rule labels are not part of C15, see DESIGN 8.4)
            if op["form"] == "tuples" and rng.random() < 0.3:
                op["prefer_suffix"] = True                             # a "| rule=" suffix beats the explicit per-line rule
                for ln in lines:
                    ln["rule2"] = rng.choice(rules)
        elif k == "remove_rxn":
            op["which"] = rng.randrange(16)
            op["bogus"] = rng.random() < p_bogus
        elif k == "remove_species":
            op["sp"] = rng.choice(species + ["ZZ"]) if rng.random() < p_bogus else rng.choice(species)
            op["prune"] = rng.random() < 0.6
            op["dflt"] = rng.random() < 0.4
        elif k == "merge":
            op["src"] = rng.randrange(n_nets)
            op["prefix"] = rng.random() < 0.5
            op["dflt"] = rng.random() < 0.4
        elif k == "copy":
            op["src"] = rng.randrange(n_nets)
        elif k == "set_mol":
            m = {}
            for _ in range(rng.randint(1, 3)):
                m[rng.choice(species + ["ZZ"]) if rng.random() < p_bogus else rng.choice(species)] = "m%d" % rng.randrange(5)
            op["mapping"] = m
            op["strict"] = rng.random() < 0.5
            op["clear"] = rng.random() < 0.3
            op["dflt"] = rng.random() < 0.4
        elif k == "assign_mol":
            op["sp"] = rng.choice(species + ["ZZ"]) if rng.random() < p_bogus else rng.choice(species)
            op["mol"] = "m%d" % rng.randrange(5)
        ops.append(op)
    return {"cfg": {"species": species, "rules": rules, "n_nets": n_nets}, "ops": ops}


# ---------------------------------------------------------------------------
# model
# ---------------------------------------------------------------------------


class Model:
    def __init__(self) -> None:
        self.rx: Dict[str, Tuple[str, Dict[str, int], Dict[str, int]]] = {}
        self.kept: set = set()
        self.mol: Dict[str, Any] = {}
        self.mol_snapshot: Optional[Dict[str, Any]] = None  # labels as observed after this network's own last op

    def occurring(self) -> set:
        s = set()
        for _, r, p in self.rx.values():
            s |= set(r) | set(p)
        return s

    def species(self) -> set:
        return self.occurring() | self.kept

    def abstract(self) -> Any:
        return (sorted((rule, sorted(r.items()), sorted(p.items())) for rule, r, p in self.rx.values()),
                len(self.kept), len(self.mol))


def _norm(side: List[List[Any]]) -> Dict[str, int]:
    out: Dict[str, int] = {}
    for s, c in side:
        if c > 0:
            out[s] = out.get(s, 0) + c
    return out


class _Lbl:
    """A caller's own species record: identity-hashed, rendered as its name (labels are normalised with str())."""

    def __init__(self, name: str) -> None:
        self.name = name

    def __str__(self) -> str:
        return self.name

    __repr__ = __str__


def _fmt_side(side: List[List[Any]], fmt: str) -> Any:
    if fmt == "map_objkeys":
        # distinct keys may denote the same species: their counts add up, as for pairs and labels
        return {_Lbl(s): c for s, c in side}
    if fmt == "map":
        d: Dict[str, int] = {}
        for s, c in side:
            d[s] = d.get(s, 0) + c if c > 0 else d.get(s, 0)
        # a mapping cannot repeat keys: merge, keep zero entries (they must be dropped by the store)
        return d
    if fmt == "pairs":
        return [(s, c) for s, c in side]
    if fmt == "gen_labels":
        return (s for s, c in side for _ in range(c))          # a one-shot iterator of labels (Iterable[str] is documented)
    if fmt == "gen_pairs":
        return iter([(s, c) for s, c in side])                  # a one-shot iterator of (label, count) pairs
    if fmt == "zip_pairs":
        return zip([s for s, c in side], [c for s, c in side])
    if fmt == "pairs_str":
        return [(s, str(c)) for s, c in side]      # counts are normalised with int(): "2" is 2
    if fmt == "map_float":
        d2: Dict[str, Any] = {}
        for s, c in side:
            d2[s] = float(d2.get(s, 0) + c) if c > 0 else d2.get(s, 0.0)
        return d2
    if fmt == "labels":
        out = []
        for s, c in side:
            out.extend([s] * c)
        return out
    if fmt == "rxnside":
        return RXNSide.from_any([(s, c) for s, c in side])
    raise ValueError(fmt)


def _str_side(side: List[List[Any]], style: str, split_terms: bool = False) -> str:
    d = _norm(side)
    zeros = [s for s, c in side if c == 0 and s not in d]   # "0A" terms must be dropped by the parser
    if not d and not zeros:
        return "∅" if style == "spaced" else ""
    if split_terms:
        terms = [(s, c) for s, c in side if c > 0]          # a species may appear in several terms: "A + 2A"
    else:
        terms = list(d.items())
    parts = []
    for s, c in terms + [(z, 0) for z in zeros[:1]]:
        if c == 1:
            parts.append(s)
        elif style == "tight":
            parts.append(f"{c}{s}")
        elif style == "spaced":
            parts.append(f"{c} {s}")
        else:
            parts.append(f"{c}*{s}")
    return (" + " if style == "spaced" else "+").join(parts)


def _rxn_str(line: Dict[str, Any]) -> str:
    sp_ = bool(line.get("split"))
    s = _str_side(line["r"], line["style"], sp_) + (" >> " if line["style"] == "spaced" else ">>") + _str_side(line["p"], line["style"], sp_)
    if line.get("suffix") and line.get("rule"):
        s += f" | rule={line['rule']}"
    return s


# ---------------------------------------------------------------------------
# invariants
# ---------------------------------------------------------------------------


def _fail(site: str, cls: str, cond: str, detail: Any) -> None:
    raise Violation(PROP, site, cls, cond, detail)


def check_net(H: CRNHyperGraph, M: Model, site: str, cond: str, other: bool) -> None:
    wrap = (lambda c: "other_network_mutated_by_edit" if other else c)
    # reactions under their ids
    ids = set(H.edges.keys())
    mids = set(M.rx.keys())
    for eid in sorted(mids - ids):
        _fail(site, wrap("reaction_lost_or_overwritten"), cond, {"missing_id": eid, "ids": sorted(ids)})
    for eid in sorted(ids - mids):
        _fail(site, wrap("edges_has_unknown_id"), cond, {"extra_id": eid, "model_ids": sorted(mids)})
    for eid in sorted(mids):
        rule, r, p = M.rx[eid]
        e = H.edges[eid]
        got = (e.rule, dict(e.reactants.to_dict()), dict(e.products.to_dict()))
        if e.id != eid:
            _fail(site, wrap("id_refers_to_two_reactions"), cond, {"key": eid, "edge.id": e.id})
        if got != (rule, r, p):
            _fail(site, wrap("reaction_lost_or_overwritten"), cond, {"id": eid, "want": [rule, r, p], "got": list(got)})
        for side in (e.reactants, e.products):
            for s, c in side.items():
                if not (isinstance(c, int) and c > 0 and isinstance(s, str)):
                    _fail(site, wrap("side_not_normalised"), cond, {"id": eid, "side": side.to_dict()})
    # species set
    occ = M.occurring()
    sp = set(H.species)
    if not (occ <= sp):
        _fail(site, wrap("species_set_mismatch"), cond, {"missing": sorted(occ - sp)})
    if not (sp <= occ | M.kept):
        _fail(site, wrap("species_set_mismatch"), cond, {"extra": sorted(sp - (occ | M.kept)), "kept": sorted(M.kept)})
    # kept species that never re-entered a reaction must still be there
    # (tracked by the caller through M.kept maintenance)
    # indices
    for s in sorted(sp):
        want_in = {eid for eid, (_, r, p) in M.rx.items() if s in p}
        want_out = {eid for eid, (_, r, p) in M.rx.items() if s in r}
        got_in = set(H.species_to_in_edges.get(s, set()))
        got_out = set(H.species_to_out_edges.get(s, set()))
        if got_in != want_in:
            _fail(site, wrap("index_mismatch_in"), cond, {"species": s, "want": sorted(want_in), "got": sorted(got_in)})
        if got_out != want_out:
            _fail(site, wrap("index_mismatch_out"), cond, {"species": s, "want": sorted(want_out), "got": sorted(got_out)})
    for name, idx in (("in", H.species_to_in_edges), ("out", H.species_to_out_edges)):
        for s, eids in idx.items():
            if s not in sp and eids:
                _fail(site, wrap("index_mismatch_" + name), cond, {"absent_species_with_entries": s, "ids": sorted(eids)})
    # the reading API reports the same state
    if len(H) != len(mids) or sorted(e.id for e in H) != sorted(mids) or sorted(e.id for e in H.edge_list()) != sorted(mids):
        _fail(site, wrap("read_api_mismatch"), cond, {"len": len(H), "iter": sorted(e.id for e in H), "model_ids": sorted(mids)})
    if H.species_list() != sorted(sp):
        _fail(site, wrap("read_api_mismatch"), cond, {"species_list": H.species_list(), "species": sorted(sp)})
    for eid in sorted(mids):
        ge = H.get_edge(eid)
        if eid not in H or ge.id != eid or dict(ge.reactants.to_dict()) != M.rx[eid][1] or dict(ge.products.to_dict()) != M.rx[eid][2]:
            _fail(site, wrap("read_api_mismatch"), cond, {"get_edge": eid})
    for s in sorted(sp):
        want_n = set()
        for _rule, r, p in M.rx.values():
            if s in r:
                want_n |= set(p)
        got_n = set(H.neighbors(s))
        if s not in H or got_n != want_n:
            _fail(site, wrap("read_api_mismatch"), cond, {"neighbors_of": s, "want": sorted(want_n), "got": sorted(got_n)})
    # mol labels
    for s in H.species_to_mol:
        if s not in sp:
            _fail(site, wrap("mol_for_absent_species"), cond, {"species": s})
    if other and M.mol_snapshot is not None and dict(H.species_to_mol) != M.mol_snapshot:
        _fail(site, wrap("mol_labels_mismatch"), cond, {"want": M.mol_snapshot, "got": dict(H.species_to_mol)})
    # incidence
    so, eo, mapping = H.incidence_matrix(sparse=True)
    so0, eo0, mapping0 = H.incidence_matrix()                 # documented default: sparse mapping
    if not isinstance(mapping0, dict) or (so0, eo0, mapping0) != (so, eo, mapping):
        _fail(site, wrap("incidence_mismatch"), cond, {"default_call_differs_from_sparse": True})
    if H.stoichiometric_matrix(sparse=True) != (so, eo, mapping):
        _fail(site, wrap("incidence_mismatch"), cond, {"stoichiometric_matrix_alias_differs": True})
    so2, eo2, mat = H.incidence_matrix(sparse=False)
    if so != sorted(sp) or so2 != so or eo != sorted(ids) or eo2 != eo:
        _fail(site, wrap("incidence_mismatch"), cond, {"rows": so, "cols": eo})
    want: Dict[Tuple[str, str], int] = {}
    for eid, (_, r, p) in M.rx.items():
        for s in set(r) | set(p):
            want[(s, eid)] = p.get(s, 0) - r.get(s, 0)
    got_sparse = {k: v for k, v in mapping.items()}
    # sparse mapping may carry explicit zeros for catalysts; compare value-wise
    for k in set(want) | set(got_sparse):
        if want.get(k, 0) != got_sparse.get(k, 0):
            _fail(site, wrap("incidence_mismatch"), cond, {"entry": list(k), "want": want.get(k, 0), "got": got_sparse.get(k, 0)})
    try:                                  # returned lists / dict / array belong to the caller: editing them must not matter later
        mapping0.clear(); so0.clear(); eo0.clear()
    except Exception:
        pass
    if mat.shape != (len(so), len(eo)):
        _fail(site, wrap("incidence_mismatch"), cond, {"shape": list(mat.shape)})
    for i, s in enumerate(so):
        for j, eid in enumerate(eo):
            if int(mat[i, j]) != want.get((s, eid), 0):
                _fail(site, wrap("incidence_mismatch"), cond, {"entry": [s, eid], "want": want.get((s, eid), 0), "got": int(mat[i, j])})
    try:
        if mat.size:
            mat.fill(77)
        mapping.clear()
    except Exception:
        pass                                   # read-only results are fine


# ---------------------------------------------------------------------------
# execution
# ---------------------------------------------------------------------------

_LOOKS_GENERATED = {"r_1": "r", "r_2": "r", "r_3": "r", "R1_1": "R1", "R1_2": "R1", "R2_1": "R2", "r_1_1": "r_1", "r_10": "r"}


def execute(case: Dict[str, Any], sim: Sim) -> None:
    world = World(sim)
    seams = Seams()
    with GCControl():
        seams.install(id_fn=world.id_fn())
        try:
            _run(case, sim, world)
        finally:
            seams.uninstall()


def _run(case: Dict[str, Any], sim: Sim, world: World) -> None:
    cfg = case["cfg"]
    nets: List[CRNHyperGraph] = [CRNHyperGraph() for _ in range(N_NETS)]
    models: List[Model] = [Model() for _ in range(N_NETS)]
    merged_pairs: set = set()
    copied_from: Dict[int, int] = {}
    explicit_generated_form: List[set] = [set() for _ in range(N_NETS)]

    def cond_for(i: int) -> str:
        # the discriminating condition is attached per failure class in _refine_cond
        return ""

    def check_all(site: str, target: int) -> None:
        for i in range(N_NETS):
            other = i != target
            cond = "after merge" if (other and any(i in pr for pr in merged_pairs)) else ""
            check_net(nets[i], models[i], site, cond, other=other)

    def apply_add(i: int, H: CRNHyperGraph, M: Model, site: str, call, r: Dict[str, int], p: Dict[str, int],
                  rule: Optional[str], eid: Optional[str], exotic: bool = False) -> str:
        """call() performs the real add; returns outcome label."""
        rule_eff = rule or "r"
        expect_err = None
        if eid is not None and eid in M.rx:
            expect_err = KeyError
        elif not r and not p:
            expect_err = ValueError
        before_ids = set(M.rx)
        if eid is None and any(_LOOKS_GENERATED[x] == rule_eff and x in M.rx for x in explicit_generated_form[i]):
            sim.probe("generated_id_equals_existing_explicit_id_form")
        try:
            e = call()
        except (KeyError, ValueError, TypeError) as ex:
            if expect_err is None and exotic:
                # counts written as strings / floats are only *tolerated* by the library; rejecting them is legal
                sim.fault("failed_op:" + type(ex).__name__)
                return "rejected_exotic_input"
            if isinstance(ex, TypeError):
                raise
            if expect_err is None:
                _fail(site, "unexpected_exception", cond_for(i), {"exc": repr(ex), "r": r, "p": p, "rule": rule, "eid": eid})
            sim.fault("failed_op:" + type(ex).__name__)
            if M.rx:
                sim.probe("failed_op_after_state")
            return "raised:" + type(ex).__name__
        if expect_err is not None:
            # no exception although one was expected: model stays unchanged; invariants decide
            return "no_error"
        new_id = e.id
        if not isinstance(new_id, str):
            _fail(site, "bad_id_type", cond_for(i), {"id": repr(new_id)})
        if eid is not None and new_id != eid:
            _fail(site, "explicit_id_not_honoured", cond_for(i), {"asked": eid, "got": new_id})
        if new_id in before_ids:
            _fail(site, "generated_id_overwrites_existing", "generated id already in use", {"id": new_id, "existing": list(M.rx[new_id])})
        M.rx[new_id] = (rule_eff, dict(r), dict(p))
        for s in set(r) | set(p):
            if s in M.kept:
                M.kept.discard(s)
                sim.probe("kept_species_reused")
        if eid is not None and eid in _LOOKS_GENERATED:
            explicit_generated_form[i].add(eid)
        return "ok:" + new_id

    for step, op in enumerate(case["ops"]):
        sim.step()
        k = op["op"]
        if k == "alloc":
            world.reseed(op.get("s", 0))
            world.set_alloc_policy(op["p_reuse"], op["pick"], op["gc_p"])
            sim.event("alloc", [op["p_reuse"], op["pick"], op["gc_p"]])
            continue
        if k == "gc":
            world.main_alloc.collect()
            sim.event("gc", None)
            continue
        i = op["net"] % N_NETS
        H, M = nets[i], models[i]
        outcome = "ok"
        site = k
        if k == "add":
            site = "add_rxn"
            r, p = _norm(op["r"]), _norm(op["p"])
            fr, fp = _fmt_side(op["r"], op["fmt"]), _fmt_side(op["p"], op["fmt"])
            outcome = apply_add(i, H, M, site, lambda: H.add_rxn(fr, fp, rule=op["rule"], edge_id=op["eid"]),
                                r, p, op["rule"], op["eid"], exotic=op["fmt"] in ("pairs_str", "map_float", "map_objkeys"))
        elif k == "add_str":
            site = "add_rxn_from_str"
            r, p = _norm(op["r"]), _norm(op["p"])
            text = _rxn_str(op)
            if op.get("suffix") and op.get("rule"):
                outcome = apply_add(i, H, M, site, lambda: H.add_rxn_from_str(text), r, p, op["rule"], None)
            else:
                outcome = apply_add(i, H, M, site, lambda: H.add_rxn_from_str(text, rule=op["rule"]), r, p, op["rule"], None)
        elif k == "parse":
            site = "parse_rxns"
            # modelled as sequential adds; the real call is made once, so replicate by slicing:
            # run the real parse_rxns on the whole list, then reconcile line by line.
            lines = op["lines"]
            form = op["form"]
            if form == "strs":
                texts = [_rxn_str(ln) for ln in lines]
                eff_rules: List[Optional[str]] = [ln["rule"] if (ln.get("suffix") and ln.get("rule")) else None for ln in lines]
                arg: Any = texts
                kw: Dict[str, Any] = {}
            elif form == "tuples" and op.get("prefer_suffix"):
                texts = [_rxn_str(ln) for ln in lines]
                eff_rules = [ln["rule"] if (ln.get("suffix") and ln.get("rule")) else ln.get("rule2") for ln in lines]
                arg = [(t, ln.get("rule2")) for t, ln in zip(texts, lines)]
                kw = {"prefer_suffix": True}
            else:
                # an explicit per-line rule is passed, so the text carries no suffix
                texts = [_rxn_str(dict(ln, suffix=False)) for ln in lines]
                eff_rules = [ln["rule"] for ln in lines]
                kw = {}
                if form == "tuples":
                    arg = [(t, ln["rule"]) for t, ln in zip(texts, lines)]
                elif form == "rules_arg":
                    arg = texts
                    kw = {"rules": [ln["rule"] for ln in lines]}
                else:
                    # mapping: duplicate texts collapse (first position, last rule) - mirror that
                    d: Dict[str, Optional[str]] = {}
                    for t, ln in zip(texts, lines):
                        d[t] = ln["rule"]
                    arg = d
                    keep = list(d.keys())
                    first_idx = {t: texts.index(t) for t in keep}
                    lines = [lines[first_idx[t]] for t in keep]
                    texts = keep
                    eff_rules = [d[t] for t in keep]
            before = set(H.edges.keys())
            exc: Optional[BaseException] = None
            try:
                ret = H.parse_rxns(arg, **kw)
                if ret is not H:
                    _fail(site, "parse_rxns_did_not_return_self", cond_for(i), {})
            except (KeyError, ValueError) as ex:
                exc = ex
            # reconcile: lines are processed in order until the first empty reaction; which new id carries
            # which reaction is the implementation's business - only the multiset of new reactions is checked
            new_ids = [e for e in H.edges.keys() if e not in before]
            expected: List[Tuple[str, Dict[str, int], Dict[str, int]]] = []
            stopped = False
            for ln, rule in zip(lines, eff_rules):
                r, p = _norm(ln["r"]), _norm(ln["p"])
                if not r and not p:
                    stopped = True
                    break
                expected.append((rule or "r", r, p))
            actual = {nid: (H.edges[nid].rule, dict(H.edges[nid].reactants.to_dict()), dict(H.edges[nid].products.to_dict()))
                      for nid in new_ids}
            if sorted(map(repr, expected)) != sorted(map(repr, actual.values())):
                cls = "generated_id_overwrites_existing" if len(new_ids) < len(expected) and any(
                    (H.edges[b].rule, dict(H.edges[b].reactants.to_dict()), dict(H.edges[b].products.to_dict())) != M.rx[b]
                    for b in before if b in H.edges and b in M.rx) else "reaction_lost_or_overwritten"
                _fail(site, cls, "generated id already in use" if cls.startswith("generated") else "",
                      {"expected_new": [list(x) for x in expected], "new": {k2: list(v) for k2, v in actual.items()}})
            for nid, val in actual.items():
                M.rx[nid] = val
                for sp_ in set(val[1]) | set(val[2]):
                    M.kept.discard(sp_)
            if stopped:
                if exc is None:
                    pass  # invariants decide
                else:
                    sim.fault("failed_op:" + type(exc).__name__)
                    if M.rx:
                        sim.probe("failed_op_after_state")
                outcome = "raised" if exc is not None else "no_error"
            elif exc is not None:
                # an overwritten dict key shows up as a missing new id: let invariants name it first
                _fail(site, "unexpected_exception", cond_for(i), {"exc": repr(exc), "texts": texts})
        elif k == "remove_rxn":
            live = sorted(M.rx)
            if op["bogus"] or not live:
                eid = "nope_%d" % op["which"]
            else:
                eid = live[op["which"] % len(live)]
            try:
                H.remove_rxn(eid)
                if eid in M.rx:
                    del M.rx[eid]
                outcome = "ok:" + eid
            except KeyError as ex:
                if eid in M.rx:
                    _fail("remove_rxn", "unexpected_exception", cond_for(i), {"exc": repr(ex), "id": eid})
                sim.fault("failed_op:KeyError")
                if M.rx:
                    sim.probe("failed_op_after_state")
                outcome = "raised:KeyError"
            # species that lost their last reaction disappear with their labels (kept ones may stay)
        elif k == "remove_species":
            s = op["sp"]
            present = s in M.species()
            try:
                if op.get("dflt") and op["prune"]:
                    H.remove_species(s)                       # documented default: prune_orphans=True
                else:
                    H.remove_species(s, prune_orphans=op["prune"])
                if not present:
                    outcome = "no_error"
                else:
                    emptied = 0
                    for eid in list(M.rx):
                        rule, r, p = M.rx[eid]
                        if s in r or s in p:
                            r = {a: c for a, c in r.items() if a != s}
                            p = {a: c for a, c in p.items() if a != s}
                            if not r and not p:
                                del M.rx[eid]
                                emptied += 1
                            else:
                                M.rx[eid] = (rule, r, p)
                    if emptied:
                        sim.probe("remove_species_empties_reaction")
                    if op["prune"]:
                        M.kept.discard(s)
                    else:
                        M.kept.add(s)
                    outcome = "ok"
                    if any(i in pr for pr in merged_pairs):
                        sim.probe("merge_then_edit_either_side")
                    if i in copied_from or i in copied_from.values():
                        sim.probe("copy_then_edit_original")
            except KeyError as ex:
                if present:
                    _fail("remove_species", "unexpected_exception", cond_for(i), {"exc": repr(ex), "species": s})
                sim.fault("failed_op:KeyError")
                if M.rx:
                    sim.probe("failed_op_after_state")
                outcome = "raised:KeyError"
        elif k == "merge":
            j = op["src"] % N_NETS
            src_snapshot = [(e.id, e.rule, dict(e.reactants.to_dict()), dict(e.products.to_dict()))
                            for e in nets[j].edge_list()]
            before = set(H.edges.keys())
            if len(before) + len(src_snapshot) > 48:
                sim.event("merge", {"net": i, "out": "skipped_size_cap"})
                continue
            if i == j:
                sim.probe("self_merge")
            collisions = [eid for eid, *_ in src_snapshot if eid in M.rx]
            if collisions and not op["prefix"]:
                sim.probe("merge_id_collision")
            try:
                if op.get("dflt") and op["prefix"]:
                    H.merge(nets[j])                          # documented default: prefix_edges=True
                else:
                    H.merge(nets[j], prefix_edges=op["prefix"])
            except (KeyError, ValueError) as ex:
                _fail("merge", "unexpected_exception", "generated id already in use" if "already exists" in str(ex) else "",
                      {"exc": repr(ex), "prefix": op["prefix"], "dst_ids": sorted(before), "src_ids": [x[0] for x in src_snapshot]})
            new_ids = [e for e in H.edges.keys() if e not in before]
            actual = {nid: (H.edges[nid].rule, dict(H.edges[nid].reactants.to_dict()), dict(H.edges[nid].products.to_dict()))
                      for nid in new_ids}
            if sorted(repr((x[1], x[2], x[3])) for x in src_snapshot) != sorted(map(repr, actual.values())):
                _fail("merge", "reaction_lost_or_overwritten", cond_for(i),
                      {"expected_new": len(src_snapshot), "new_ids": new_ids, "dst_ids_before": sorted(before)})
            # ids: with prefix_edges=False and NO id collision at all (so nothing had to be renumbered) every merged
            # reaction must still be found under its own (source) id; how collisions are renumbered is not asserted
            if not op["prefix"] and i != j and not any(x[0] in before for x in src_snapshot) \
                    and len({x[0] for x in src_snapshot}) == len(src_snapshot):
                for sid, rule, r, p in src_snapshot:
                    if actual.get(sid) != (rule, r, p):
                        _fail("merge", "explicit_id_not_honoured", "prefix_edges=False, no id collision",
                              {"src_id": sid, "new_ids": sorted(actual)})
            for nid, val in actual.items():
                M.rx[nid] = val
                for s_ in set(val[1]) | set(val[2]):
                    M.kept.discard(s_)
            if src_snapshot:
                merged_pairs.add(frozenset((i, j)))
            outcome = "ok:%d" % len(new_ids)
        elif k == "copy":
            j = op["src"] % N_NETS
            if i != j:
                nets[i] = nets[j].copy()
                models[i] = copy.deepcopy(models[j])
                models[i].mol_snapshot = dict(nets[i].species_to_mol)
                explicit_generated_form[i] = set(explicit_generated_form[j])
                merged_pairs = {pr for pr in merged_pairs if i not in pr}
                copied_from[i] = j
                H, M = nets[i], models[i]
        elif k == "set_mol":
            mp = dict(op["mapping"])
            sp = M.species()
            unknown = set(mp) - sp
            try:
                if op.get("dflt") and op["strict"] and not op["clear"]:
                    H.set_mol_map(mp)                         # documented defaults: strict=True, clear_existing=False
                elif op.get("dflt") and op["strict"]:
                    H.set_mol_map(mp, clear_existing=op["clear"])
                else:
                    H.set_mol_map(mp, strict=op["strict"], clear_existing=op["clear"])
                if op["strict"] and unknown:
                    outcome = "no_error"
                else:
                    if op["clear"]:
                        M.mol.clear()
                    for s, m in mp.items():
                        if s in sp:
                            M.mol[s] = m
            except KeyError as ex:
                if not (op["strict"] and unknown):
                    _fail("set_mol_map", "unexpected_exception", cond_for(i), {"exc": repr(ex)})
                sim.fault("failed_op:KeyError")
                outcome = "raised:KeyError"
        elif k == "assign_mol":
            s = op["sp"]
            try:
                H.assign_mol(s, op["mol"])
                if s in M.species():
                    M.mol[s] = op["mol"]
                else:
                    outcome = "no_error"
            except KeyError as ex:
                if s in M.species():
                    _fail("assign_mol", "unexpected_exception", cond_for(i), {"exc": repr(ex)})
                sim.fault("failed_op:KeyError")
                outcome = "raised:KeyError"
        # species leaving the network take their labels with them
        for mi, MM in enumerate(models):
            sp_now = MM.species()
            for s in list(MM.mol):
                if s not in sp_now:
                    del MM.mol[s]
        # a kept species the implementation legitimately pruned after re-use is already out of kept (see apply_add)
        check_all(site, i)
        # kept species must survive until re-used
        for s in M.kept:
            if s not in H.species:
                _fail(site, "species_set_mismatch", cond_for(i), {"kept_species_missing": s})
        M.mol_snapshot = dict(H.species_to_mol)
        sim.state(M.abstract())
        sim.event(k, {"net": i, "out": outcome if not outcome.startswith("ok:") else "ok",
                      "ids": sorted(H.edges.keys()), "species": sorted(H.species),
                      "n_mol": len(H.species_to_mol)})


# ---------------------------------------------------------------------------
# operand simplification for shrinking
# ---------------------------------------------------------------------------


def simplify(case: Dict[str, Any]) -> Iterable[Dict[str, Any]]:
    ops = case["ops"]
    for idx, op in enumerate(ops):
        if op["op"] in ("alloc", "gc"):
            continue

        def repl(new_op: Dict[str, Any]) -> Dict[str, Any]:
            c = copy.deepcopy(case)
            c["ops"][idx] = new_op
            return c
        if op["op"] in ("add", "add_str"):
            for side in ("r", "p"):
                if len(op[side]) > 1:
                    for d in range(len(op[side])):
                        n = copy.deepcopy(op)
                        del n[side][d]
                        yield repl(n)
                for d, (s, c) in enumerate(op[side]):
                    if c != 1:
                        n = copy.deepcopy(op)
                        n[side][d][1] = 1
                        yield repl(n)
            if op["op"] == "add" and op.get("fmt") != "map":
                n = copy.deepcopy(op)
                n["fmt"] = "map"
                yield repl(n)
            if op.get("rule") is not None:
                n = copy.deepcopy(op)
                n["rule"] = None
                n["suffix"] = False
                yield repl(n)
        elif op["op"] == "parse" and len(op["lines"]) > 1:
            for d in range(len(op["lines"])):
                n = copy.deepcopy(op)
                del n["lines"][d]
                yield repl(n)
        elif op["op"] == "remove_species" and not op["prune"]:
            n = copy.deepcopy(op)
            n["prune"] = True
            yield repl(n)

