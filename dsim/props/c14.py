"""C14 — batching, parallelism and caching are operational only: results never change.

System under simulation (real code): BatchReactor/_RuleApplier/_apply_rule_raw/SynReactor,
BatchCluster.fit, AAMValidator.validate_smiles, BalanceReactionCheck.dicts_balance_check,
SynCRN.build.  Stubs: joblib.Parallel, ProcessPoolExecutor, id(), the cyclic-GC trigger,
the `random` module object seen by synkit.Utils.utils.
"""
from __future__ import annotations

import copy
import json
import logging
import os
import random as _random
from typing import Any, Dict, Iterable, List, Optional, Tuple

from rdkit import RDLogger

RDLogger.DisableLog("rdApp.*")
logging.disable(logging.CRITICAL)

import networkx as nx  # noqa: E402

import synkit.Synthesis.Reactor.batch_reactor as _br  # noqa: E402
from synkit.Synthesis.Reactor.batch_reactor import BatchReactor  # noqa: E402
from synkit.Synthesis.Reactor.syn_reactor import SynReactor  # noqa: E402
from synkit.IO import rsmi_to_its, smiles_to_graph  # noqa: E402
import synkit.Graph.Matcher.batch_cluster as _bc  # noqa: E402
import synkit.Chem.Reaction.aam_validator as _av  # noqa: E402
import synkit.Chem.Reaction.balance_check as _bal  # noqa: E402
import synkit.CRN.DAG.syncrn as _crn  # noqa: E402
import synkit.Utils.utils as _utils  # noqa: E402

from ..kernel import Sim, Violation, rng_for, derive  # noqa: E402
from ..seams import Seams, GCControl, SimAllocator, MODSTATE  # noqa: E402
from ..executor import World, make_parallel, make_pool, TerminatedWorkerError  # noqa: E402
from . import c14_sub  # noqa: E402

PROP = "C14"
VERIF = os.path.dirname(os.path.dirname(os.path.dirname(os.path.abspath(__file__))))

TIERS = {
    "quick": {"runs": 1300, "wall": 70, "chunk": 6},
    "thorough": {"runs": 36000, "wall": 840, "chunk": 10},
}
STEP_CAP = 3_000_000
CHUNK_TIMEOUT = 900
SHRINK_BUDGET = 120
FAULT_OPS = ("gc", "alloc", "pool")
PROBES = [
    "reused_address_still_cached", "legit_cache_hit_possible", "eviction_ran",
    "process_pool_used", "lookalike_neighbours_in_batch",
    "second_fit_same_reactor", "entry_dict_edited_between_fits", "twin_reactor_other_worker_count", "nested_parallel", "crash_mid_fit",
    "cluster_batched", "validate_parallel", "validate_tautomer_sensitive_pair", "validate_aromaticity_sensitive_pair", "dataframe_with_permuted_index", "rule_pre_filter_on", "crn_task_fails_inside_reactor", "crn_non_default_options", "crn_three_component_rule", "signature_not_equal_to_itself", "crn_step_with_more_than_1024_tasks", "validate_more_than_256_rows", "balance_parallel", "crn_parallel",
]
REAL = ["synkit.Synthesis.Reactor.batch_reactor (BatchReactor, _RuleApplier, _apply_rule_raw)",
        "synkit.Synthesis.Reactor.syn_reactor.SynReactor and everything beneath (matcher, ITS gluing, RDKit)",
        "synkit.Graph.Matcher.batch_cluster.BatchCluster / graph_cluster.GraphCluster",
        "synkit.Chem.Reaction.aam_validator.AAMValidator.validate_smiles",
        "synkit.Chem.Reaction.balance_check.BalanceReactionCheck.dicts_balance_check",
        "synkit.CRN.DAG.syncrn.SynCRN.build"]
STUB = ["joblib.Parallel -> dsim.executor.SimParallel (batches pickled once with cloudpickle, per-worker address spaces)",
        "concurrent.futures.ProcessPoolExecutor -> dsim.executor.SimProcessPool (std pickle per work item)",
        "builtin id() inside synkit modules -> dsim.seams.SimAllocator", "cyclic GC trigger (gc.disable + scheduled gc.collect)",
        "random module object seen by synkit.Utils.utils -> private random.Random"]
ASSUMPTIONS = [
    "an address is handed out again only after its previous owner is provably dead (weakref callback / pure temporary), so every simulated identity sequence is one CPython may produce",
    "loky semantics: n_jobs==1 runs in-process without pickling; otherwise each batch of tasks is serialised once and executed in a worker that shares no memory with the parent",
    "simulated workers share the parent's module-level Python state (real loky workers have their own); no anchored module keeps results in module-level state",
    "reference = SynReactor applied to a freshly built substrate graph and freshly built rule graphs, one rule at a time, concatenated, order-preserving de-duplication iff dedupe (the property's observe_at)",
    "worker crash: the only accepted outcomes are the backend's exception or the exact result",
]
RULE = ("seeded op lists over 1-2 long-lived BatchReactor objects (configure / fit with 1-12 corpus substrates incl. repeats and "
        "CH2-homologue look-alikes, 1-4 rules, both directions, cache on/off, cache_maxsize in {1,2,3,8,32768}, entry_n_jobs 1-8, "
        "rule_n_jobs 1-4, nested on/off, strategies all/comp/bt, 3 hydrogen modes) plus sub-workloads BatchCluster.fit(batch_size), "
        "validate_smiles(n_jobs), dicts_balance_check(n_jobs), SynCRN.build(parallel), interleaved with fault ops gc / allocator "
        "policy (address reuse p, lifo|fifo|rand, gc coin) / pool (batch sizes, completion order, worker recycling, worker crash). "
        "Each entry's output is compared with SynReactor on that entry alone; a twin reactor with another worker count must agree. Rare modes: "
        "an expansion step with 1326 tasks, validation tables of 300/520 rows (exact accuracy arithmetic), an input whose rule application "
        "fails inside the reactor (serial and parallel must agree on the outcome), one shared NaN signature in batched clustering, DataFrames "
        "with permuted / shifted index, entry dicts edited between fits. Non-trivial = >=1 fault fired and >=1 probe hit; "
        "distinct = distinct event-log digests")

_CORPUS: Optional[Dict[str, Any]] = None
_REF: Dict[Tuple, List[str]] = {}
_SCRATCH: Optional[World] = None


def corpus() -> Dict[str, Any]:
    global _CORPUS
    if _CORPUS is None:
        with open(os.path.join(VERIF, "data", "corpus.json")) as fh:
            _CORPUS = json.load(fh)
        _CORPUS["rule_names"] = list(_CORPUS["rules"].keys())
    return _CORPUS


def warm() -> None:
    corpus()
    c14_sub.warm()
    MODSTATE.scan()


MODES = {"explicit": (True, False), "plain": (False, False), "implicit": (False, True)}


# ---------------------------------------------------------------------------
# reference (outside the simulated faults, memoised by content)
# ---------------------------------------------------------------------------


def _apply_alone(sub: str, rule_smi: str, invert: bool, strategy: str, mode: str) -> List[str]:
    key = (sub, rule_smi, invert, strategy, mode)
    got = _REF.get(key)
    if got is None:
        explicit_h, implicit_temp = MODES[mode]
        g = smiles_to_graph(sub, drop_non_aam=False, use_index_as_atom_map=False)
        r = rsmi_to_its(rule_smi, core=True)
        try:
            reactor = SynReactor(substrate=g, template=r, invert=invert, strategy=strategy,
                                 explicit_h=explicit_h, implicit_temp=implicit_temp)
            got = list(reactor.smarts_list)
        except Exception:
            got = []
        _REF[key] = got
    return list(got)


def reference(sub: str, rule_smis: List[str], invert: bool, strategy: str, mode: str, dedupe: bool) -> List[str]:
    flat: List[str] = []
    for r in rule_smis:
        flat.extend(_apply_alone(sub, r, invert, strategy, mode))
    if dedupe:
        seen = set()
        out = []
        for x in flat:
            if x not in seen:
                seen.add(x)
                out.append(x)
        return out
    return flat


class _Pristine:
    """Context: run reference computations under a scratch address space that the run never sees."""

    def __init__(self, world: World):
        self.world = world

    def __enter__(self):
        global _SCRATCH
        self.prev_state = MODSTATE.current()
        if _SCRATCH is None:
            _SCRATCH = World(Sim(0))   # binds its own fresh module state
        MODSTATE.bind(_SCRATCH.modstate)
        self.prev = self.world.cur_alloc
        self.world.cur_alloc = _SCRATCH.main_alloc
        return self

    def __exit__(self, *exc):
        self.world.cur_alloc = self.prev
        MODSTATE.bind(self.prev_state)
        return False


# ---------------------------------------------------------------------------
# generation
# ---------------------------------------------------------------------------


def _lookalike_groups(subs: List[str]) -> List[List[int]]:
    # substrates sharing the second fragment are treated as one homologous family
    fam: Dict[str, List[int]] = {}
    for i, s in enumerate(subs):
        parts = s.split(".")
        fam.setdefault(parts[-1] + "|" + str(len(parts)), []).append(i)
    return [v for v in fam.values() if len(v) >= 2]


def generate(seed: int, tier: str = "quick") -> Dict[str, Any]:
    rng = rng_for(seed, "c14", "gen")
    C = corpus()
    subs, rnames = C["substrates"], C["rule_names"]
    groups = _lookalike_groups(subs)
    ops: List[Dict[str, Any]] = []
    kind = rng.choice(["reactor"] * 6 + ["mixed"] * 2 + ["sub"] * 2)
    deep = tier == "thorough" and rng.random() < 0.4
    n_ops = rng.randint(8, 16) if deep else rng.randint(3, 9)
    faulty = rng.random() < 0.8
    k = 0

    def s() -> int:
        nonlocal k
        k += 1
        return derive(seed, "op", k)

    def gen_entries() -> List[int]:
        n = rng.randint(6, 20) if deep else rng.randint(1, 12)
        if rng.random() < 0.03:
            return []
        if rng.random() < 0.7:
            g = rng.choice(groups)
            base = [rng.choice(g) for _ in range(n)]
        else:
            base = [rng.randrange(len(subs)) for _ in range(n)]
        if rng.random() < 0.3 and n > 2:
            base[rng.randrange(n)] = base[0]
        return base

    def gen_configure(slot: int) -> Dict[str, Any]:
        return {"op": "configure", "s": s(), "reactor": slot,
                "entries": gen_entries(),
                "cache": rng.random() < 0.8,
                "maxsize": rng.choice([1, 2, 3, 8, 32768, 32768]),
                "entry_jobs": rng.choice([1, 1, 1, 2, 3, 4, 8, 16]),
                "rule_jobs": rng.choice([1, 1, 2, 4]),
                "parallel_rules": rng.random() < 0.35,
                "allow_nested": rng.random() < 0.5,
                "dedupe": rng.random() < 0.7,
                "strategy": rng.choice(["bt", "bt", "all", "comp"]),
                "mode": rng.choice(["explicit", "explicit", "explicit", "plain", "implicit"]),
                "as_dict": rng.random() < 0.25,
                # the rule pre-filter only skips rules whose pattern is absent from the substrate: operational, like the cache
                "pre_filter": rng.choice([None, None, None, "nx", "turbo", "sing"])}

    def gen_fit(slot: int) -> Dict[str, Any]:
        n_r = rng.randint(1, 4) if rng.random() < 0.8 else rng.randint(5, 8)
        rl = [rng.randrange(len(rnames)) for _ in range(n_r)]
        if rng.random() < 0.2 and n_r > 1:
            rl[-1] = rl[0]
        return {"op": "fit", "s": s(), "reactor": slot, "rules": rl, "invert": rng.random() < 0.4,
                "rules_as": rng.choice(["str", "str", "graph", "fresh_graph"])}

    def gen_fault() -> Dict[str, Any]:
        c = rng.random()
        if c < 0.25:
            return {"op": "gc", "s": s()}
        if c < 0.7:
            return {"op": "alloc", "s": s(), "p_reuse": rng.choice([0.0, 0.3, 0.6, 1.0, 1.0]),
                    "pick": rng.choice(["lifo", "fifo", "rand"]), "gc_p": rng.choice([0.0, 0.05, 0.3, 0.6])}
        return {"op": "pool", "s": s(), "batches": rng.choice(["auto", "auto", "one", "all", [2], [1, 3], [4, 1]]),
                "order": rng.choice(["fifo", "lifo", "rand"]), "recycle_p": rng.choice([0.0, 0.0, 0.3, 1.0]),
                "gc_p": rng.choice([0.0, 0.3, 1.0]),
                "crash_at": (rng.randint(1, 6) if rng.random() < 0.12 else None)}

    if faulty:
        ops.append({"op": "alloc", "s": s(), "p_reuse": rng.choice([0.3, 0.6, 1.0, 1.0]),
                    "pick": rng.choice(["lifo", "fifo", "rand"]), "gc_p": rng.choice([0.05, 0.3, 0.6])})
    if kind in ("reactor", "mixed"):
        ops.append(gen_configure(0))
    for _ in range(n_ops):
        if faulty and rng.random() < 0.3:
            ops.append(gen_fault())
        if kind == "sub" or (kind == "mixed" and rng.random() < 0.4):
            o = c14_sub.gen_op(rng, s)
            ops.append(o)
            if o["op"] == "validate" and rng.random() < 0.5:
                # the same table again under another setting / worker count (history on shared state)
                o2 = copy.deepcopy(o)
                o2["s"] = s()
                o2["ignore_tautomers"] = not o.get("ignore_tautomers", True)
                if rng.random() < 0.5:
                    o2["ignore_aromaticity"] = not o.get("ignore_aromaticity", False)
                o2["n_jobs"] = rng.choice([1, 1, 2, 4])
                ops.append(o2)
        else:
            c = rng.random()
            if c < 0.12:
                ops.append(gen_configure(rng.choice([0, 0, 1])))
            elif c < 0.2:
                # the caller edits one of ITS OWN entry dicts between two fits (the reactor keeps the dicts it was given)
                ops.append({"op": "edit_entry", "s": s(), "reactor": rng.choice([0, 0, 1]), "idx": rng.randrange(12),
                            "new": rng.randrange(len(subs))})
            else:
                ops.append(gen_fit(rng.choice([0, 0, 0, 1])))
    return {"cfg": {"kind": kind}, "ops": ops}


# ---------------------------------------------------------------------------
# execution
# ---------------------------------------------------------------------------


def execute(case: Dict[str, Any], sim: Sim) -> None:
    world = World(sim)
    seams = Seams()
    with GCControl():
        seams.install(id_fn=world.id_fn(), parallel_cls=make_parallel(world), pool_cls=make_pool(world),
                      random_obj=_random.Random(12345))
        try:
            _run(case, sim, world)
        finally:
            seams.uninstall()


def _run(case: Dict[str, Any], sim: Sim, world: World) -> None:
    C = corpus()
    subs, rnames, rules = C["substrates"], C["rule_names"], C["rules"]
    reactors: Dict[int, Dict[str, Any]] = {}
    held_rule_graphs: Dict[int, nx.Graph] = {}

    def cache_keys() -> Iterable[Any]:
        for R in reactors.values():
            c = getattr(getattr(R["br"], "_apply_rule", None), "_cache", None)
            if c:
                for key in list(c):
                    yield key

    def on_assign(addr: int, reused: bool) -> None:
        if reused:
            for key in cache_keys():
                if isinstance(key, tuple) and addr in key[:2]:
                    sim.probe("reused_address_still_cached")
                    break

    world.main_alloc.hooks_on_assign.append(on_assign)

    def on_parallel(n_jobs: int, n_tasks: int) -> None:
        if world.depth > 0 and n_jobs > 1:
            sim.probe("nested_parallel")
        cur = getattr(world, "_fitting", None)
        c = getattr(getattr(cur, "_apply_rule", None), "_cache", None) if cur is not None else None
        if n_jobs > 1 and c:
            # (not reachable through the public configuration on the unchanged tree: a reactor is either serial or
            #  parallel for its whole life, so a non-empty cache is never pickled to workers; kept for mutants)
            sim.probe("parent_keys_shipped_to_worker")

    world.on_parallel_call.append(on_parallel)

    def default_reactor(slot: int) -> Dict[str, Any]:
        return {"op": "configure", "reactor": slot, "entries": [0, 1, 2], "cache": True, "maxsize": 32768,
                "entry_jobs": 1, "rule_jobs": 1, "parallel_rules": False, "allow_nested": False, "dedupe": True,
                "strategy": "bt", "mode": "explicit", "as_dict": False}

    def configure(op: Dict[str, Any]) -> None:
        slot = op["reactor"] % 2
        ent = [subs[i % len(subs)] for i in op["entries"]]
        data: List[Any] = [{"smi": e, "tag": k} for k, e in enumerate(ent)] if op["as_dict"] else list(ent)
        explicit_h, implicit_temp = MODES[op["mode"]]
        if op.get("pre_filter"):
            sim.probe("rule_pre_filter_on")
        br = BatchReactor(data, host_key="smi" if op["as_dict"] else None, react_engine="syn", pre_filter_engine=op.get("pre_filter"),
                          explicit_h=explicit_h, implicit_temp=implicit_temp, strategy=op["strategy"],
                          dedupe=op["dedupe"], entry_n_jobs=op["entry_jobs"], rule_n_jobs=op["rule_jobs"],
                          parallel_rules=op["parallel_rules"], allow_nested=op["allow_nested"],
                          cache_enabled=op["cache"], cache_maxsize=op["maxsize"], enable_logging=False)
        twin = None
        twin_data = None
        if op["as_dict"]:
            # a twin that differs only in the number of entry workers: whatever the library does with entries that the
            # caller edits between fits, it must do the same for every worker count
            twin_data = [dict(d) for d in data]
            twin = BatchReactor(twin_data, host_key="smi", react_engine="syn", pre_filter_engine=op.get("pre_filter"),
                                explicit_h=explicit_h, implicit_temp=implicit_temp, strategy=op["strategy"],
                                dedupe=op["dedupe"], entry_n_jobs=(2 if op["entry_jobs"] == 1 else 1), rule_n_jobs=op["rule_jobs"],
                                parallel_rules=op["parallel_rules"], allow_nested=op["allow_nested"],
                                cache_enabled=op["cache"], cache_maxsize=op["maxsize"], enable_logging=False)
        reactors[slot] = {"br": br, "cfg": op, "entries": ent, "fits": 0, "data": data, "twin": twin, "twin_data": twin_data,
                          "built_with": list(ent), "edited": set()}
        fams = {e.split(".")[-1] for e in ent}
        if len(set(ent)) > 1 and len(fams) < len(set(ent)):
            sim.probe("lookalike_neighbours_in_batch")
        sim.event("configure", {k: v for k, v in op.items() if k not in ("s",)})

    def fit(op: Dict[str, Any]) -> None:
        slot = op["reactor"] % 2
        if slot not in reactors:
            configure(default_reactor(slot))
        R = reactors[slot]
        cfg = R["cfg"]
        names = [rnames[i % len(rnames)] for i in op["rules"]] or [rnames[0]]
        smis = [rules[n] for n in names]
        if op["rules_as"] == "str":
            arg: List[Any] = list(smis)
        elif op["rules_as"] == "graph":
            arg = []
            for i in op["rules"]:
                i = i % len(rnames)
                if i not in held_rule_graphs:
                    held_rule_graphs[i] = rsmi_to_its(rules[rnames[i]], core=True)
                arg.append(held_rule_graphs[i])
        else:
            fresh: Dict[int, nx.Graph] = {}
            arg = []
            for i in op["rules"]:
                i = i % len(rnames)
                if i not in fresh:
                    fresh[i] = rsmi_to_its(rules[rnames[i]], core=True)
                arg.append(fresh[i])
            del fresh
        if cfg["cache"] and len(set(names)) < len(names) and op["rules_as"] != "str":
            sim.probe("legit_cache_hit_possible")
        if cfg["cache"] and len(R["entries"]) * len(names) > cfg["maxsize"]:
            sim.probe("eviction_ran")
        if R["fits"] >= 1:
            sim.probe("second_fit_same_reactor")
        R["fits"] += 1
        crash_armed = world.pool_cfg.get("crash_at") is not None
        cond = "cache=%s entry_jobs=%s" % ("on" if cfg["cache"] else "off", "1" if cfg["entry_jobs"] == 1 else ">1")
        world._fitting = R["br"]
        try:
            if not op["invert"] and op.get("s", 0) % 3 == 0:
                out = R["br"].fit(arg)                       # documented default: invert=False
            else:
                out = R["br"].fit(arg, invert=op["invert"])
        except TerminatedWorkerError:
            world._fitting = None
            if not crash_armed:
                raise
            sim.probe("crash_mid_fit")
            sim.event("fit", {"slot": slot, "out": "TerminatedWorkerError"})
            return
        out_twin = None
        if R.get("twin") is not None and world.pool_cfg.get("crash_at") is None:
            out_twin = R["twin"].fit(arg, invert=op["invert"])
            sim.probe("twin_reactor_other_worker_count")
        del arg
        world._fitting = None
        if not isinstance(out, list) or len(out) != len(R["entries"]):
            raise Violation(PROP, "BatchReactor.fit", "result_list_shortened_or_shifted", cond,
                            {"entries": len(R["entries"]), "results": (len(out) if isinstance(out, list) else repr(type(out)))})
        key = "syn_" + ("bw" if op["invert"] else "fw")
        with _Pristine(world):
            refs = [reference(e, smis, op["invert"], cfg["strategy"], cfg["mode"], cfg["dedupe"]) for e in R["entries"]]
        summary = []
        for i, (e, o) in enumerate(zip(R["entries"], out)):
            got = o.get(key) if isinstance(o, dict) else None
            if got is None and isinstance(o, dict):
                # the name of the result key is not part of the property: accept the single list-valued entry
                lists = [v for kk, v in o.items() if isinstance(v, (list, tuple))]
                if len(lists) == 1:
                    got = lists[0]
            if got is None:
                raise Violation(PROP, "BatchReactor.fit", "result_key_missing", cond, {"entry": e, "keys": list(o) if isinstance(o, dict) else repr(o)})
            got = list(got)
            if got != refs[i] and i in R.get("edited", ()) and out_twin is not None:
                # the entry dict was edited by the caller after construction. Two readings are legitimate: the current
                # content (what the library does today) or a snapshot taken when the reactor was built - provided
                # the reading does not depend on the number of workers (the twin must agree)
                old_ref = None
                with _Pristine(world):
                    old_ref = reference(R["built_with"][i], smis, op["invert"], cfg["strategy"], cfg["mode"], cfg["dedupe"])
                tw = out_twin[i]
                tw_list = tw.get(key) if isinstance(tw, dict) else None
                if got == old_ref and tw_list is not None and list(tw_list) == got:
                    summary.append(len(got))
                    continue
            if got != refs[i]:
                cls = "entry_result_differs_from_alone"
                where = [j for j, r in enumerate(refs) if r == got and j != i]
                if where and got:
                    cls = "entry_result_is_another_entrys_result"
                elif sorted(got) == sorted(refs[i]):
                    cls = "entry_result_order_changed"
                raise Violation(PROP, "BatchReactor.fit", cls, cond,
                                {"entry_index": i, "entry": e, "rules": names, "invert": op["invert"],
                                 "got": got[:4], "alone": refs[i][:4], "equals_result_of_entry": [R["entries"][j] for j in where[:3]],
                                 "cfg": {k: v for k, v in cfg.items() if k not in ("s", "entries", "op")}})
            if o.get("count") != len(got):
                raise Violation(PROP, "BatchReactor.fit", "count_mismatch", cond, {"count": o.get("count"), "len": len(got)})
            summary.append(len(got))
        if out_twin is not None:
            a_ = [list(o.get(key) or []) if isinstance(o, dict) else None for o in out]
            b_ = [list(o.get(key) or []) if isinstance(o, dict) else None for o in out_twin]
            if a_ != b_:
                bad = [i for i, (x, y) in enumerate(zip(a_, b_)) if x != y]
                raise Violation(PROP, "BatchReactor.fit", "result_depends_on_worker_count", cond,
                                {"entries": [R["entries"][i] for i in bad[:3]], "entry_jobs": [cfg["entry_jobs"], 2 if cfg["entry_jobs"] == 1 else 1],
                                 "edited_after_construction": sorted(R.get("edited", ()))})
        for o in (out + (out_twin or [])):             # returned lists belong to the caller: editing them must not matter later
            if isinstance(o, dict):
                for v_ in o.values():
                    if isinstance(v_, list):
                        v_.clear()
        sim.state(("fit", cfg["cache"], min(cfg["maxsize"], 9), min(cfg["entry_jobs"], 3), cfg["parallel_rules"],
                   cfg["strategy"], cfg["mode"], op["invert"], tuple(sorted(set(names))), tuple(sorted(set(R["entries"])))))
        sim.event("fit", {"slot": slot, "rules": names, "inv": op["invert"], "n_out": summary})

    for op in case["ops"]:
        sim.step()
        world.reseed(op.get("s", 0))
        k = op["op"]
        if k == "configure":
            configure(op)
        elif k == "fit":
            fit(op)
        elif k == "edit_entry":
            R = reactors.get(op["reactor"] % 2)
            if R is not None and R["cfg"]["as_dict"] and R["entries"]:
                i_ = op["idx"] % len(R["entries"])
                new_s = subs[op["new"] % len(subs)]
                R["data"][i_]["smi"] = new_s          # in-place edit of the caller's own dict
                if R.get("twin_data") is not None:
                    R["twin_data"][i_]["smi"] = new_s
                R["entries"][i_] = new_s
                R["edited"].add(i_)
                sim.probe("entry_dict_edited_between_fits")
            sim.event("edit_entry", None)
        elif k == "gc":
            n = world.main_alloc.collect()
            sim.event("gc", None)
        elif k == "alloc":
            world.set_alloc_policy(op["p_reuse"], op["pick"], op["gc_p"])
            sim.event("alloc", [op["p_reuse"], op["pick"], op["gc_p"]])
        elif k == "pool":
            world.pool_cfg.update({"batches": op["batches"], "order": op["order"], "recycle_p": op["recycle_p"],
                                   "gc_p": op["gc_p"], "crash_at": (world.batch_counter + op["crash_at"]) if op.get("crash_at") else None})
            sim.event("pool", {kk: vv for kk, vv in op.items() if kk not in ("s", "op")})
        else:
            c14_sub.exec_op(op, sim, world, _Pristine(world))


# ---------------------------------------------------------------------------
# operand simplification
# ---------------------------------------------------------------------------


def simplify(case: Dict[str, Any]) -> Iterable[Dict[str, Any]]:
    for idx, op in enumerate(case["ops"]):
        def repl(n: Dict[str, Any]) -> Dict[str, Any]:
            c = copy.deepcopy(case)
            c["ops"][idx] = n
            return c
        if op["op"] == "configure":
            if len(op["entries"]) > 1:
                for d in range(len(op["entries"])):
                    n = copy.deepcopy(op)
                    del n["entries"][d]
                    yield repl(n)
            for fld, val in (("entry_jobs", 1), ("rule_jobs", 1), ("parallel_rules", False), ("allow_nested", False),
                             ("as_dict", False), ("strategy", "bt"), ("mode", "explicit"), ("maxsize", 32768), ("dedupe", True)):
                if op.get(fld) != val:
                    n = copy.deepcopy(op)
                    n[fld] = val
                    yield repl(n)
        elif op["op"] == "fit":
            if len(op["rules"]) > 1:
                for d in range(len(op["rules"])):
                    n = copy.deepcopy(op)
                    del n["rules"][d]
                    yield repl(n)
            if op["rules_as"] != "str":
                n = copy.deepcopy(op)
                n["rules_as"] = "str"
                yield repl(n)
        elif op["op"] == "alloc":
            for fld, val in (("gc_p", 0.0), ("pick", "lifo"), ("p_reuse", 1.0)):
                if op.get(fld) != val:
                    n = copy.deepcopy(op)
                    n[fld] = val
                    yield repl(n)
        else:
            yield from c14_sub.simplify_op(case, idx, op)
