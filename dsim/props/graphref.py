"""Reference models for small labelled graphs: plain backtracking enumeration of
structure-preserving maps (isomorphisms, automorphisms, induced / monomorphic
embeddings).  Deliberately independent of networkx VF2 and of every SynKit matcher.

A graph is given as (nodes, node_key, adj) where
  nodes    : list of hashable node ids
  node_key : dict node -> hashable label that must be equal under the map
  arcs     : dict (u, v) -> hashable edge label   (directed; for undirected graphs both
             directions are present with the same label)
"""
from __future__ import annotations

from typing import Any, Callable, Dict, Hashable, Iterator, List, Optional, Set, Tuple

import networkx as nx

Node = Hashable


class G:
    __slots__ = ("nodes", "key", "arcs", "out", "inn")

    def __init__(self, nodes: List[Node], key: Dict[Node, Any], arcs: Dict[Tuple[Node, Node], Any]):
        self.nodes = list(nodes)
        self.key = key
        self.arcs = arcs
        self.out: Dict[Node, Set[Node]] = {n: set() for n in self.nodes}
        self.inn: Dict[Node, Set[Node]] = {n: set() for n in self.nodes}
        for (u, v) in arcs:
            self.out[u].add(v)
            self.inn[v].add(u)


def from_nx(g: nx.Graph, node_key: Callable[[Dict[str, Any]], Any], edge_key: Callable[[Dict[str, Any]], Any]) -> G:
    nodes = list(g.nodes())
    key = {n: node_key(g.nodes[n]) for n in nodes}
    arcs: Dict[Tuple[Node, Node], Any] = {}
    for u, v, d in g.edges(data=True):
        arcs[(u, v)] = edge_key(d)
        if not g.is_directed():
            arcs[(v, u)] = edge_key(d)
    return G(nodes, key, arcs)


def maps(p: G, h: G, *, mode: str, node_ok: Optional[Callable[[Any, Any], bool]] = None,
         limit: Optional[int] = None, edge_ok: Optional[Callable[[Any, Any], bool]] = None) -> Iterator[Dict[Node, Node]]:
    """Enumerate injective maps pattern p -> host h.

    mode = "iso"   : bijection, arcs preserved both ways with equal labels
           "induced": injective, arc (u,v) in p  <=>  arc (f u, f v) in h, equal labels
           "mono"  : injective, arc (u,v) in p   =>  arc (f u, f v) in h, equal labels
    node_ok(pattern_key, host_key) defaults to equality.
    """
    if node_ok is None:
        node_ok = lambda a, b: a == b  # noqa: E731
    if edge_ok is None:
        edge_ok = lambda a, b: a == b  # noqa: E731
    if mode == "iso" and (len(p.nodes) != len(h.nodes) or len(p.arcs) != len(h.arcs)):
        return
    if len(p.nodes) > len(h.nodes):
        return
    # order pattern nodes: connected-first (BFS) to prune early
    order: List[Node] = []
    seen: Set[Node] = set()
    for s in p.nodes:
        if s in seen:
            continue
        queue = [s]
        seen.add(s)
        while queue:
            x = queue.pop(0)
            order.append(x)
            for y in list(p.out[x]) + list(p.inn[x]):
                if y not in seen:
                    seen.add(y)
                    queue.append(y)
    strict = mode in ("iso", "induced")
    assign: Dict[Node, Node] = {}
    used: Set[Node] = set()
    count = [0]

    def ok(u: Node, x: Node) -> bool:
        if not node_ok(p.key[u], h.key[x]):
            return False
        if mode == "iso":
            if len(p.out[u]) != len(h.out[x]) or len(p.inn[u]) != len(h.inn[x]):
                return False
        else:
            if len(p.out[u]) > len(h.out[x]) or len(p.inn[u]) > len(h.inn[x]):
                return False
        for w, y in assign.items():
            for (a, b), (c, d) in (((u, w), (x, y)), ((w, u), (y, x))):
                pe = p.arcs.get((a, b), _NO)
                he = h.arcs.get((c, d), _NO)
                if pe is not _NO:
                    if he is _NO or not edge_ok(pe, he):
                        return False
                elif strict and he is not _NO:
                    return False
        # self loops
        pe = p.arcs.get((u, u), _NO)
        he = h.arcs.get((x, x), _NO)
        if pe is not _NO:
            if he is _NO or not edge_ok(pe, he):
                return False
        elif strict and he is not _NO:
            return False
        return True

    def rec(i: int) -> Iterator[Dict[Node, Node]]:
        if limit is not None and count[0] >= limit:
            return
        if i == len(order):
            count[0] += 1
            yield dict(assign)
            return
        u = order[i]
        for x in h.nodes:
            if x in used:
                continue
            if ok(u, x):
                assign[u] = x
                used.add(x)
                yield from rec(i + 1)
                del assign[u]
                used.discard(x)
                if limit is not None and count[0] >= limit:
                    return

    yield from rec(0)


_NO = object()


def exists(p: G, h: G, *, mode: str, node_ok: Optional[Callable[[Any, Any], bool]] = None,
           edge_ok: Optional[Callable[[Any, Any], bool]] = None) -> bool:
    for _ in maps(p, h, mode=mode, node_ok=node_ok, limit=1, edge_ok=edge_ok):
        return True
    return False


def automorphisms(g: G, limit: Optional[int] = None) -> List[Dict[Node, Node]]:
    return list(maps(g, g, mode="iso", limit=limit))


def orbits_of(nodes: List[Node], auts: List[Dict[Node, Node]]) -> Set[frozenset]:
    parent = {n: n for n in nodes}

    def find(x: Node) -> Node:
        while parent[x] != x:
            parent[x] = parent[parent[x]]
            x = parent[x]
        return x

    for m in auts:
        for a, b in m.items():
            ra, rb = find(a), find(b)
            if ra != rb:
                parent[rb] = ra
    out: Dict[Node, set] = {}
    for n in nodes:
        out.setdefault(find(n), set()).add(n)
    return {frozenset(v) for v in out.values()}


def is_valid_map(p: G, h: G, m: Dict[Node, Node], *, mode: str,
                 node_ok: Optional[Callable[[Any, Any], bool]] = None) -> bool:
    if node_ok is None:
        node_ok = lambda a, b: a == b  # noqa: E731
    if set(m.keys()) != set(p.nodes):
        return False
    if len(set(m.values())) != len(m) or not set(m.values()) <= set(h.nodes):
        return False
    if mode == "iso" and len(p.nodes) != len(h.nodes):
        return False
    for u in p.nodes:
        if not node_ok(p.key[u], h.key[m[u]]):
            return False
    for (u, v), lab in p.arcs.items():
        if h.arcs.get((m[u], m[v]), _NO) != lab:
            return False
    if mode in ("iso", "induced"):
        inv = {v: k for k, v in m.items()}
        for (x, y), lab in h.arcs.items():
            if x in inv and y in inv and p.arcs.get((inv[x], inv[y]), _NO) != lab:
                return False
    return True
