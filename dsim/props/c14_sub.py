"""C14 sub-workloads: batched vs one-shot clustering, parallel vs serial validation,
balance checking and network expansion — all under the simulated pools / allocator."""
from __future__ import annotations

import copy
import json
import os
import random as _random
from typing import Any, Dict, Iterable, List, Optional

import networkx as nx

from synkit.Graph.Matcher.batch_cluster import BatchCluster
from synkit.Chem.Reaction.aam_validator import AAMValidator
from synkit.Chem.Reaction.balance_check import BalanceReactionCheck
from synkit.CRN.DAG.syncrn import SynCRN, build_syncrn_from_smarts

from ..kernel import Sim, Violation
from ..executor import TerminatedWorkerError
from . import rcdata

PROP = "C14"
VERIF = os.path.dirname(os.path.dirname(os.path.dirname(os.path.abspath(__file__))))
_C: Optional[Dict[str, Any]] = None
_CHK: Dict[Any, bool] = {}
_BAL: Dict[str, bool] = {}
_CRN: Dict[Any, Any] = {}

# implicit-H mapped reactions whose verdict depends on tautomer enumeration of the reference
# (mapping onto the other carboxylic oxygen): strict check False, tautomer-aware check True
TAUT_PAIRS = [
    ("[CH3:1][C:2](=[O:3])[OH:4].[CH3:5][CH2:6][OH:7]>>[CH3:1][C:2](=[O:3])[O:7][CH2:6][CH3:5].[OH2:4]",
     "[CH3:1][C:2](=[O:3])[OH:4].[CH3:5][CH2:6][OH:7]>>[CH3:1][C:2](=[O:4])[O:7][CH2:6][CH3:5].[OH2:3]"),
    ("[CH3:1][C:2](=[O:3])[OH:4].[CH3:5][OH:6]>>[CH3:1][C:2](=[O:3])[O:6][CH3:5].[OH2:4]",
     "[CH3:1][C:2](=[O:3])[OH:4].[CH3:5][OH:6]>>[CH3:1][C:2](=[O:4])[O:6][CH3:5].[OH2:3]"),
    ("[CH3:8][CH2:1][C:2](=[O:3])[OH:4].[CH3:5][OH:6]>>[CH3:8][CH2:1][C:2](=[O:3])[O:6][CH3:5].[OH2:4]",
     "[CH3:8][CH2:1][C:2](=[O:3])[OH:4].[CH3:5][OH:6]>>[CH3:8][CH2:1][C:2](=[O:4])[O:6][CH3:5].[OH2:3]"),
    ("[CH3:1][C:2](=[O:3])[OH:4].[CH3:5][NH2:6]>>[CH3:1][C:2](=[O:3])[NH:6][CH3:5].[OH2:4]",
     "[CH3:1][C:2](=[O:3])[OH:4].[CH3:5][NH2:6]>>[CH3:1][C:2](=[O:4])[NH:6][CH3:5].[OH2:3]"),
]

# keto -> phenol aromatisation written from the 2,4- and the 2,5-dienone: all ring bonds change by 0.5 only, so the
# verdict of the pair depends on ignore_aromaticity
AROM_PAIRS = [
    ("[O:1]=[C:2]1[CH:3]=[CH:4][CH2:5][CH:6]=[CH:7]1>>[OH:1][c:2]1[cH:3][cH:4][cH:5][cH:6][cH:7]1",
     "[O:1]=[C:2]1[CH:3]=[CH:4][CH:5]=[CH:6][CH2:7]1>>[OH:1][c:2]1[cH:3][cH:4][cH:5][cH:6][cH:7]1"),
    ("[O:1]=[C:2]1[CH:3]=[CH:4][CH:5]=[CH:6][CH2:7]1>>[OH:1][c:2]1[cH:3][cH:4][cH:5][cH:6][cH:7]1",
     "[O:1]=[C:2]1[CH:3]=[CH:4][CH2:5][CH:6]=[CH:7]1>>[OH:1][c:2]1[cH:3][cH:4][cH:5][cH:6][cH:7]1"),
]

CRN_SETUPS = [
    (["esterification", "ester_hydrolysis"], ["CC(=O)O", "CO", "CCO"]),
    (["aldol"], ["CC=O", "CCC=O"]),
    (["hydration", "alcohol_oxidation"], ["C=C", "O", "CC=C"]),
    (["esterification", "transester"], ["CC(=O)O", "CO", "CCO", "CCC(=O)O"]),
    (["sn2_ether", "hydration"], ["CBr", "CO", "C=C", "O"]),
    (["imine", "aldol"], ["CC=O", "CN", "CCC=O"]),
    (["mannich3", "imine"], ["CC=O", "CN", "CCC=O", "CC(C)=O"]),       # a three-component rule (mixtures of arity 3)
]
EXTRA_RULES = {
    "mannich3": ("[CH3:1][CH:2]=[O:3].[CH3:4][N:5]([H:6])[H:7].[CH:8]([H:11])([H:12])[CH:9]=[O:10]>>"
                 "[CH3:1][CH:2]([N:5]([H:7])[CH3:4])[CH:8]([H:12])[CH:9]=[O:10].[H:6][O:3][H:11]"),
}
CRN_OPTS = {"use_frontier": [False], "max_mixtures_per_rule_step": [3, 7], "max_tasks_per_step": [5, 11], "skip_no_change": [False],
            "dedup_delta": [False], "dedup_across_rules": [True], "max_components": [2, 1], "keep_aam": [False]}


def _corpus() -> Dict[str, Any]:
    global _C
    if _C is None:
        with open(os.path.join(VERIF, "data", "corpus.json")) as fh:
            _C = json.load(fh)
        _C["rule_names"] = list(_C["rules"].keys())
    return _C


def warm() -> None:
    _corpus()
    rcdata.items()


# ---------------------------------------------------------------------------
# generation
# ---------------------------------------------------------------------------


def gen_op(rng, s) -> Dict[str, Any]:
    if rng.random() < 0.006:
        # sizes above what the small workloads reach: more than 1024 tasks in one expansion step / more than 256 rows
        if rng.random() < 0.5:
            return {"op": "crn_big", "s": s(), "workers": rng.choice([2, 3, 8])}
        return {"op": "validate_big", "s": s(), "n_rows": rng.choice([300, 520]), "n_jobs": rng.choice([2, 3, 4]),
                "method": rng.choice(["RC", "ITS"]), "p_ok": rng.choice([0.5, 0.9])}
    if rng.random() < 0.02:
        # an input where one rule application fails inside the reactor: both modes must agree on the outcome
        seeds = rng.sample(RAISE_SEEDS, rng.choice([2, 3, 4]))
        return {"op": "crn_raise", "s": s(), "rules": rng.choice([[0, 1], [1, 0], [1, 0, 1]]), "seeds": seeds, "workers": rng.choice([None, 2, 3])}
    c = rng.random()
    n_rules = len(_corpus()["rule_names"])
    if c < 0.3:
        n = rng.randint(2, 14)
        n_base = len(rcdata.items())
        pool = [rng.randrange(n_base) for _ in range(rng.randint(1, 5))]
        its = []
        for _ in range(n):
            b = rng.choice(pool)
            ed = None
            r = rng.random()
            if r < 0.2:
                ed = ["order", rng.randrange(8)]
            elif r < 0.3:
                ed = ["charge", rng.randrange(8)]
            its.append(rcdata.spec(b, rng.randrange(1 << 30) if rng.random() < 0.7 else None, ed))
        return {"op": "cluster", "s": s(), "items": its, "batch_size": rng.choice([1, 2, 3, 5, n, n + 3]),
                "attr": rng.random() < 0.6, "nan_every": rng.choice([None] * 6 + [2, 2, 3])}
    if c < 0.55:
        rows = []
        for _ in range(rng.randint(1, 10)):
            a = rng.randrange(n_rules)
            kind = rng.choice(["same", "renum", "renum", "other", "swap", "taut", "taut", "arom"])
            rows.append({"gt": a, "kind": kind, "k": rng.randrange(1 << 20), "other": rng.randrange(n_rules)})
        return {"op": "validate", "s": s(), "rows": rows, "n_jobs": rng.choice([1, 1, 2, 3, 4, 8]),
                "method": rng.choice(["RC", "ITS"]), "as_df": rng.random() < 0.3,
                "ignore_tautomers": rng.random() < 0.5, "ignore_aromaticity": rng.random() < 0.35}
    if c < 0.8:
        rows = []
        for _ in range(rng.randint(1, 12)):
            rows.append({"r": rng.randrange(n_rules), "kind": rng.choice(["ok", "ok", "drop", "dup"]), "k": rng.randrange(8)})
        return {"op": "balance", "s": s(), "rows": rows, "n_jobs": rng.choice([1, 2, 4, 8, -1, 3]),
                "as_dict": rng.random() < 0.5}
    o = {"op": "crn", "s": s(), "setup": rng.randrange(len(CRN_SETUPS)), "repeats": rng.choice([1, 2]),
         "workers": rng.choice([None, 2, 3, 8]), "mode": rng.choice(["explicit", "plain"]),
         "n_seeds": rng.choice([2, 3, 4])}
    if rng.random() < 0.5:
        # the expansion's own knobs (frontier, caps, de-duplication, component limit): both modes must agree under each
        ks = rng.sample(sorted(CRN_OPTS), rng.choice([1, 1, 2, 3]))
        o["opts"] = {k_: rng.choice(CRN_OPTS[k_]) for k_ in ks}
        o["via_wrapper"] = rng.random() < 0.4
    if "mannich3" in CRN_SETUPS[o["setup"]][0]:
        o["repeats"] = 1
    return o


# ---------------------------------------------------------------------------
# helpers
# ---------------------------------------------------------------------------


def _renumber(rsmi: str, k: int) -> str:
    """Permute the atom-map numbers of a mapped reaction consistently on both sides."""
    import re
    nums = sorted({int(x) for x in re.findall(r":(\d+)\]", rsmi)})
    r = _random.Random(k)
    perm = nums[:]
    r.shuffle(perm)
    m = dict(zip(nums, perm))
    return re.sub(r":(\d+)\]", lambda mo: ":%d]" % m[int(mo.group(1))], rsmi)


def _swap_products(rsmi: str, k: int) -> str:
    """Swap two atom-map numbers on the product side only (a different mapping, maybe a wrong one)."""
    import re
    lhs, rhs = rsmi.split(">>")
    nums = sorted({int(x) for x in re.findall(r":(\d+)\]", rhs)})
    if len(nums) < 2:
        return rsmi
    r = _random.Random(k)
    a, b = r.sample(nums, 2)
    m = {a: b, b: a}
    rhs2 = re.sub(r":(\d+)\]", lambda mo: ":%d]" % m.get(int(mo.group(1)), int(mo.group(1))), rhs)
    return lhs + ">>" + rhs2


def _unbalance(rsmi: str, kind: str, k: int) -> str:
    lhs, rhs = rsmi.split(">>")
    parts = rhs.split(".")
    if kind == "drop" and len(parts) > 1:
        del parts[k % len(parts)]
    elif kind == "dup":
        parts.append(parts[k % len(parts)])
    return lhs + ">>" + ".".join(parts)


def _serial_check(mapped: str, gt: str, method: str, ignore_taut: bool = True, ignore_arom: bool = False) -> Any:
    key = (mapped, gt, method, ignore_taut, ignore_arom)
    if key not in _CHK:
        if ignore_taut:
            _CHK[key] = AAMValidator.smiles_check(mapped, gt, method, ignore_arom)
        else:
            _CHK[key] = AAMValidator.smiles_check_tautomer(mapped, gt, method, ignore_arom)
    return _CHK[key]


def _serial_balance(r: str) -> bool:
    if r not in _BAL:
        _BAL[r] = bool(BalanceReactionCheck.rsmi_balance_check(r))
    return _BAL[r]


def _graph_sig(g: nx.DiGraph) -> Any:
    return (sorted((n, sorted((k, repr(v)) for k, v in d.items())) for n, d in g.nodes(data=True)),
            sorted((u, v, sorted((k, repr(x)) for k, x in d.items())) for u, v, d in g.edges(data=True)))


# ---------------------------------------------------------------------------
# execution
# ---------------------------------------------------------------------------


def exec_op(op: Dict[str, Any], sim: Sim, world, pristine) -> None:
    k = op["op"]
    crash_armed = world.pool_cfg.get("crash_at") is not None
    try:
        if k == "cluster":
            _cluster(op, sim, world)
        elif k == "validate":
            _validate(op, sim, world, pristine)
        elif k == "balance":
            _balance(op, sim, world, pristine)
        elif k == "crn":
            _crn(op, sim, world, pristine)
        elif k == "crn_raise":
            _crn_raise(op, sim, world, pristine)
        elif k == "crn_big":
            _crn_big(op, sim, world, pristine)
        elif k == "validate_big":
            _validate_big(op, sim, world, pristine)
        else:
            sim.event("noop", None)
    except TerminatedWorkerError:
        if not crash_armed:
            raise
        sim.event(k, "TerminatedWorkerError")


_NAN = float("nan")


def _cluster(op: Dict[str, Any], sim: Sim, world) -> None:
    specs = op["items"]
    akey = "inv" if op["attr"] else None

    def mk() -> List[Dict[str, Any]]:
        out = []
        for i, sp in enumerate(specs):
            g = rcdata.build(sp)
            d: Dict[str, Any] = {"gml": g, "idx": i}
            if akey:
                d[akey] = rcdata.invariant_attr(g)
                if op.get("nan_every") and i % op["nan_every"] == 1:   # never the first entry: its type selects the comparison mode
                    d[akey] = _NAN     # "no signature available": one shared not-a-number object, unequal to itself
            out.append(d)
        return out

    # long-lived service objects: one BatchCluster per run for the one-shot path, one for the batched path
    if not hasattr(world, "_bc_pair"):
        world._bc_pair = (BatchCluster(), BatchCluster())
    bc1, bc2 = world._bc_pair
    sim.exotic = "nan_signature" if (akey and op.get("nan_every")) else None    # may be refused cleanly
    one, _ = bc1.fit(mk(), [], rule_key="gml", attribute_key=akey, batch_size=None)
    bat, _ = bc2.fit(mk(), [], rule_key="gml", attribute_key=akey, batch_size=op["batch_size"])
    sim.exotic = None
    if op["batch_size"] < len(specs):
        sim.probe("cluster_batched")
    if akey and op.get("nan_every"):
        sim.probe("signature_not_equal_to_itself")
    for name, res in (("one_shot", one), ("batched", bat)):
        if len(res) != len(specs) or [d.get("idx") for d in res] != list(range(len(specs))):
            raise Violation(PROP, "BatchCluster.fit", "items_lost_or_reordered", name,
                            {"n": len(specs), "got": [d.get("idx") for d in res]})
    p1 = [d.get("class") for d in one]
    p2 = [d.get("class") for d in bat]
    if not rcdata.same_partition(p1, p2):
        raise Violation(PROP, "BatchCluster.fit", "batched_differs_from_one_shot", "batch_size<n" if op["batch_size"] < len(specs) else "batch_size>=n",
                        {"one_shot": p1, "batched": p2, "batch_size": op["batch_size"], "items": specs})
    sim.state(("cluster", len(set(p1)), len(specs), min(op["batch_size"], 6), op["attr"]))
    sim.event("cluster", {"n": len(specs), "classes": len(set(p1)), "bs": op["batch_size"]})


def _validate(op: Dict[str, Any], sim: Sim, world, pristine) -> None:
    C = _corpus()
    rn, rules = C["rule_names"], C["rules"]
    data = []
    it = bool(op.get("ignore_tautomers", True))
    ia = bool(op.get("ignore_aromaticity", False))
    for row in op["rows"]:
        gt = rules[rn[row["gt"] % len(rn)]]
        if row["kind"] == "taut":
            gt, m = TAUT_PAIRS[row["k"] % len(TAUT_PAIRS)]
            sim.probe("validate_tautomer_sensitive_pair")
        elif row["kind"] == "arom":
            gt, m = AROM_PAIRS[row["k"] % len(AROM_PAIRS)]
            sim.probe("validate_aromaticity_sensitive_pair")
        elif row["kind"] == "same":
            m = gt
        elif row["kind"] == "renum":
            m = _renumber(gt, row["k"])
        elif row["kind"] == "swap":
            m = _swap_products(gt, row["k"])
        else:
            m = rules[rn[row["other"] % len(rn)]]
        data.append({"ground_truth": gt, "m1": m, "m2": _renumber(m, row["k"] + 1)})
    with pristine:
        want = {c: [_serial_check(d[c], d["ground_truth"], op["method"], it, ia) for d in data] for c in ("m1", "m2")}
    if any(w is None for c in want for w in want[c]):
        sim.event("validate", "skipped: reference is None (error path of smiles_check_tautomer)")
        return
    arg: Any = data
    if op.get("as_df"):
        import pandas as pd
        arg = pd.DataFrame(data)
        mode = op.get("s", 0) % 3
        if mode == 1 and len(data) > 1:
            order = list(range(len(data)))
            _random.Random(op.get("s", 0)).shuffle(order)
            # same rows in the same positions, but the integer index labels are a permutation (as after sort/sample)
            arg.index = order
            sim.probe("dataframe_with_permuted_index")
        elif mode == 2:
            arg.index = [10 + 3 * i_ for i_ in range(len(data))]
    res = AAMValidator.validate_smiles(arg, "ground_truth", ["m1", "m2"], op["method"], ia, op["n_jobs"], 0, it)
    if op["n_jobs"] > 1:
        sim.probe("validate_parallel")
    want = {c: [bool(x) for x in v] for c, v in want.items()}
    if [r.get("mapper") for r in res] != ["m1", "m2"]:
        raise Violation(PROP, "AAMValidator.validate_smiles", "parallel_differs_from_serial", "mapper order", {"got": [r.get("mapper") for r in res]})
    for r in res:
        got = [bool(x) for x in r["results"]]
        w = want[r["mapper"]]
        if got != w:
            raise Violation(PROP, "AAMValidator.validate_smiles", "parallel_differs_from_serial",
                            "n_jobs>1" if op["n_jobs"] > 1 else "n_jobs=1",
                            {"mapper": r["mapper"], "got": got, "serial": w, "rows": op["rows"], "method": op["method"],
                             "ignore_tautomers": it, "ignore_aromaticity": ia})
        acc = round(100 * (sum(w) / len(w)), 2) if w else 0.0
        if abs(float(r["accuracy"]) - acc) > 1e-9:
            raise Violation(PROP, "AAMValidator.validate_smiles", "accuracy_mismatch", "", {"got": r["accuracy"], "want": acc})
    sim.state(("validate", op["method"], min(op["n_jobs"], 3), it, tuple(sorted(set(want["m1"])))))
    sim.event("validate", {"n": len(data), "true": sum(want["m1"]), "jobs": op["n_jobs"]})


def _balance(op: Dict[str, Any], sim: Sim, world, pristine) -> None:
    C = _corpus()
    rn, rules = C["rule_names"], C["rules"]
    rs = []
    for row in op["rows"]:
        r = rules[rn[row["r"] % len(rn)]]
        rs.append(r if row["kind"] == "ok" else _unbalance(r, row["kind"], row["k"]))
    if op["as_dict"]:
        arg: List[Any] = [{"reactions": r, "tag": i} for i, r in enumerate(rs)]
    else:
        arg = list(rs)
    if not hasattr(world, "_bal"):
        world._bal = {}
    checker = world._bal.setdefault(op["n_jobs"], BalanceReactionCheck(n_jobs=op["n_jobs"]))
    bal, unbal = checker.dicts_balance_check(arg, "reactions")
    if op["n_jobs"] != 1:
        sim.probe("balance_parallel")
    with pristine:
        want = [_serial_balance(r) for r in rs]
    w_bal = [(i, r) for i, (r, ok) in enumerate(zip(rs, want)) if ok]
    w_unb = [(i, r) for i, (r, ok) in enumerate(zip(rs, want)) if not ok]
    for name, got, w, flag in (("balanced", bal, w_bal, True), ("unbalanced", unbal, w_unb, False)):
        got_r = [d.get("reactions") for d in got]
        if got_r != [r for _, r in w] or any(d.get("balanced") is not flag for d in got):
            raise Violation(PROP, "BalanceReactionCheck.dicts_balance_check", "parallel_differs_from_serial",
                            "n_jobs>1" if op["n_jobs"] != 1 else "n_jobs=1",
                            {"list": name, "got": got_r, "serial": [r for _, r in w]})
        if op["as_dict"] and [d.get("tag") for d in got] != [i for i, _ in w]:
            raise Violation(PROP, "BalanceReactionCheck.dicts_balance_check", "rows_shifted", "", {"list": name, "tags": [d.get("tag") for d in got]})
    sim.state(("balance", min(abs(op["n_jobs"]), 3), len(w_bal) > 0, len(w_unb) > 0))
    sim.event("balance", {"n": len(rs), "bal": len(w_bal), "jobs": op["n_jobs"]})


def _crn(op: Dict[str, Any], sim: Sim, world, pristine) -> None:
    C = _corpus()
    names, seeds = CRN_SETUPS[op["setup"] % len(CRN_SETUPS)]
    seeds = seeds[: max(2, op["n_seeds"])]
    rl = [C["rules"].get(n) or EXTRA_RULES[n] for n in names]
    explicit = op["mode"] == "explicit" or "mannich3" in names
    opts = dict(op.get("opts") or {})

    def run(parallel: bool) -> Any:
        if op.get("via_wrapper"):
            return build_syncrn_from_smarts(list(rl), list(seeds), repeats=op["repeats"], explicit_h=explicit, implicit_temp=False,
                                            strategy="bt", parallel=parallel, max_workers=(op["workers"] if parallel else None), **opts)
        crn = SynCRN(rules=list(rl), repeats=op["repeats"], explicit_h=explicit, implicit_temp=False, strategy="bt", **opts)
        return crn.build(list(seeds), parallel=parallel, max_workers=(op["workers"] if parallel else None))

    g_par = run(True)
    sim.probe("crn_parallel")
    if opts:
        sim.probe("crn_non_default_options")
    if "mannich3" in names:
        sim.probe("crn_three_component_rule")
    key = (tuple(names), tuple(seeds), op["repeats"], explicit, tuple(sorted(opts.items())), bool(op.get("via_wrapper")))
    with pristine:
        if key not in _CRN:
            _CRN[key] = _graph_sig(run(False))
        want = _CRN[key]
    got = _graph_sig(g_par)
    if got != want:
        raise Violation(PROP, "SynCRN.build", "parallel_differs_from_serial", "",
                        {"rules": names, "seeds": seeds, "repeats": op["repeats"],
                         "nodes_par": g_par.number_of_nodes(), "nodes_ser": len(want[0])})
    species = sorted(d.get("smiles_nomap") for _, d in g_par.nodes(data=True) if d.get("kind") == "species")
    sim.state(("crn", op["setup"], op["repeats"], explicit, len(species)))
    sim.event("crn", {"species": species, "rxn": sum(1 for _, d in g_par.nodes(data=True) if d.get("kind") == "rxn")})


# two elementary steps of the aldol mechanism; the first has a wildcard partner ("any base"), which the reactor refuses
RAISE_RULES = ["[CH:4]([H:7])([H:8])[CH:5]=[O:6].[*-:9]>>[CH-:4]([H:8])[CH:5]=[O:6].[*:9][H:7]",
               "[CH:4]([H:7])([H:8])[CH:5]=[O:6]>>[CH:4]([H:8])=[CH:5][O:6]([H:7])"]
RAISE_SEEDS = ["CC=O", "CC(C)=O", "CCC=O", "O", "CCC(C)=O"]


def _crn_raise(op: Dict[str, Any], sim: Sim, world, pristine) -> None:
    rl = [RAISE_RULES[i] for i in op["rules"]]
    seeds = list(op["seeds"])

    def outcome(parallel: bool) -> Any:
        crn = SynCRN(rules=list(rl), repeats=1, explicit_h=True, implicit_temp=False)
        try:
            g = crn.build(list(seeds), parallel=parallel, max_workers=op["workers"])
        except TerminatedWorkerError:
            raise
        except Exception:  # the input is refused as a whole
            return "raised"
        return _graph_sig(g)

    got = outcome(True)
    with pristine:
        want = outcome(False)
    sim.probe("crn_task_fails_inside_reactor")
    if got != want:
        raise Violation(PROP, "SynCRN.build", "parallel_differs_from_serial", "a rule application fails inside the reactor",
                        {"rules": op["rules"], "seeds": seeds, "parallel": got if got == "raised" else len(got[0]),
                         "serial": want if want == "raised" else len(want[0])})
    sim.event("crn_raise", "raised" if got == "raised" else len(got[0]))


# 52 seeds: 49 alkanes that never react + a di-acid and two alcohols (mono-esters in step 1, di-esters only in step 2)
_INERT = (["C" * n for n in range(1, 11)] + ["C1CC1", "C1CCC1", "C1CCCC1", "C1CCCCC1", "C1CCCCCC1", "C1CCCCCCC1"] +
          ["CF", "CCF", "CCCF", "CCCCF", "CCl", "CCCl", "CCCCl", "CCCCCl", "CBr", "CCBr", "CCCBr", "CCCCBr"] +
          ["COC", "CCOC", "CCOCC", "COCC(C)C", "CC#N", "CCC#N", "C=C", "CC=C", "CC=CC", "C=CC=C", "CN(C)C", "CCN(C)C"] +
          ["c1ccccc1", "Cc1ccccc1", "FC(F)F", "ClC(Cl)Cl", "CSC", "CCSC", "CC(C)=O", "CCC(C)=O", "C#C"])
BIG_SEEDS = list(_INERT) + ["OC(=O)CC(=O)O", "CO", "CCO"]


def _crn_big(op: Dict[str, Any], sim: Sim, world, pristine) -> None:
    C = _corpus()
    rl = [C["rules"]["esterification"]]
    seeds = list(BIG_SEEDS)

    def mk() -> SynCRN:
        return SynCRN(rules=list(rl), repeats=2, explicit_h=True, implicit_temp=False, strategy="bt")

    g_par = mk().build(list(seeds), parallel=True, max_workers=op["workers"])
    sim.probe("crn_step_with_more_than_1024_tasks")
    key = ("big", 2)
    with pristine:
        if key not in _CRN:
            _CRN[key] = _graph_sig(mk().build(list(seeds), parallel=False))
        want = _CRN[key]
    got = _graph_sig(g_par)
    if got != want:
        raise Violation(PROP, "SynCRN.build", "parallel_differs_from_serial", "more than 1024 tasks in one step",
                        {"nodes_par": g_par.number_of_nodes(), "nodes_ser": len(want[0]), "workers": op["workers"]})
    sim.state(("crn_big", len(want[0])))
    sim.event("crn_big", {"nodes": g_par.number_of_nodes()})


def _validate_big(op: Dict[str, Any], sim: Sim, world, pristine) -> None:
    r = _random.Random(op.get("s", 0))
    good = [(gt, _renumber(gt, 3)) for gt, _ in TAUT_PAIRS] + [(gt, gt) for gt, _ in AROM_PAIRS]
    bad = list(TAUT_PAIRS) + list(AROM_PAIRS)
    data = []
    for _ in range(op["n_rows"]):
        gt, m = r.choice(good) if r.random() < op["p_ok"] else r.choice(bad)
        data.append({"ground_truth": gt, "m1": m})
    with pristine:
        want = [bool(_serial_check(d["m1"], d["ground_truth"], op["method"], True, False)) for d in data]
    res = AAMValidator.validate_smiles(data, "ground_truth", ["m1"], op["method"], False, op["n_jobs"], 0, True)
    sim.probe("validate_more_than_256_rows")
    got = [bool(x) for x in res[0]["results"]]
    if got != want:
        raise Violation(PROP, "AAMValidator.validate_smiles", "parallel_differs_from_serial", "n_jobs>1, more than 256 rows", {"n": len(data)})
    acc = round(100 * (sum(want) / len(want)), 2)
    if abs(float(res[0]["accuracy"]) - acc) > 1e-9:
        raise Violation(PROP, "AAMValidator.validate_smiles", "accuracy_mismatch", "n_jobs>1, more than 256 rows",
                        {"got": res[0]["accuracy"], "want": acc, "rows": len(data), "n_jobs": op["n_jobs"]})
    ser = AAMValidator.validate_smiles(data, "ground_truth", ["m1"], op["method"], False, 1, 0, True)
    if ser[0]["accuracy"] != res[0]["accuracy"] or ser[0].get("success_rate") != res[0].get("success_rate"):
        raise Violation(PROP, "AAMValidator.validate_smiles", "parallel_differs_from_serial", "summary figures, more than 256 rows",
                        {"serial": [ser[0]["accuracy"], ser[0].get("success_rate")], "parallel": [res[0]["accuracy"], res[0].get("success_rate")]})
    sim.state(("validate_big", op["n_rows"], op["n_jobs"]))
    sim.event("validate_big", {"n": len(data), "true": sum(want)})


# ---------------------------------------------------------------------------
# simplification
# ---------------------------------------------------------------------------


def simplify_op(case: Dict[str, Any], idx: int, op: Dict[str, Any]) -> Iterable[Dict[str, Any]]:
    def repl(n: Dict[str, Any]) -> Dict[str, Any]:
        c = copy.deepcopy(case)
        c["ops"][idx] = n
        return c
    for fld in ("items", "rows"):
        if fld in op and len(op[fld]) > 1:
            for d in range(len(op[fld])):
                n = copy.deepcopy(op)
                del n[fld][d]
                yield repl(n)
    if op.get("n_jobs", 1) > 2:
        n = copy.deepcopy(op)
        n["n_jobs"] = 2
        yield repl(n)
    if op["op"] == "cluster":
        for d, it in enumerate(op["items"]):
            if it.get("relabel") is not None:
                n = copy.deepcopy(op)
                n["items"][d]["relabel"] = None
                yield repl(n)
    if op["op"] == "crn" and op["repeats"] > 1:
        n = copy.deepcopy(op)
        n["repeats"] = 1
        yield repl(n)
