"""C18 — network canonical form is a complete invariant; automorphism data are exact,
under any (legal) allocator behaviour and any clock behaviour.

Real code: synkit.CRN.Topo.canon (CRNCanonicalizer, canonical), synkit.CRN.Topo.automorphism
(CRNAutomorphism, detect_automorphisms), synkit.CRN.Hypergraph.{backend,conversion,hypergraph}.
Stubs: builtin id() inside synkit modules (SimAllocator), the `time` module object of the two Topo modules (SimClock).
"""
from __future__ import annotations

import copy
import json
from typing import Any, Dict, Iterable, List, Optional, Tuple

import networkx as nx

import synkit.CRN.Topo.canon as _canon
import synkit.CRN.Topo.automorphism as _aut
from synkit.CRN.Topo.canon import CRNCanonicalizer, canonical
from synkit.CRN.Topo.automorphism import CRNAutomorphism, detect_automorphisms
from synkit.CRN.Topo.wl_canon import WLCanonicalizer, wl_canonical
from synkit.CRN.Hypergraph.hypergraph import CRNHyperGraph

from ..kernel import Sim, Violation, rng_for, derive
from ..seams import Seams, GCControl, SimClock, TimeFacade
from ..executor import World
from . import graphref as gr

PROP = "C18"
TIERS = {
    "quick": {"runs": 30000, "wall": 75, "chunk": 100},
    "thorough": {"runs": 500000, "wall": 840, "chunk": 200},
}
STEP_CAP = 3_000_000
SHRINK_BUDGET = 200
FAULT_OPS = ("alloc", "clock_tick", "clock_jump", "clock_freeze")
# (probes "epoch_address_reused" / "ephemeral_id" only fire if the code under test calls id() on temporaries,
#  which the repaired tree no longer does; they are kept for mutants and not required to be non-zero)
PROBES = ["refinement_rounds_ge_2", "timeout_fired", "clock_went_backwards",
          "symmetric_family", "orbits_accessor_called", "regular_graph_zoo", "edit_keeps_species_and_reaction_counts", "analyser_attribute_rekeyed", "enumeration_suspended_while_other_call_runs", "canon_compared_with_another_interpreter", "more_than_1000_automorphisms", "same_hypergraph_object_reanalysed", "network_edited_between_analyses", "call_relying_on_signature_defaults", "analyser_object_reused", "depth_limited_call", "wl_checked", "twin_compared", "neighbour_compared", "flagged_partial_answer", "slow_clock_default_timeout"]
REAL = ["synkit.CRN.Topo.wl_canon.WLCanonicalizer / wl_canonical (sound checks only: isomorphic to view, colour classes coarsen true orbits, estimate >= true count, twin histograms equal)",
        "synkit.CRN.Topo.canon.CRNCanonicalizer (_init_part/_sig/_refine/_label/_search/_canon, summary/graph/orbits)",
        "synkit.CRN.Topo.automorphism.CRNAutomorphism.summary / has_nontrivial_automorphism / detect_automorphisms",
        "synkit.CRN.Hypergraph.backend._CRNGraphBackend + conversion.hypergraph_to_bipartite / hypergraph_to_species_graph",
        "synkit.CRN.Topo.automorphism.CRNAutomorphism.iter (lazy enumeration, also suspended while another call runs on the same analyser)",
        "a second interpreter (dsim/peer.py, other PYTHONHASHSEED, no seams) running the real CRNCanonicalizer on request: stored canonical forms must agree across processes",
        "networkx DiGraphMatcher (VF2) as used by CRNAutomorphism"]
STUB = ["builtin id() inside synkit modules -> SimAllocator (temporaries: address reusable immediately, policy never/always/coin)",
        "time module object of synkit.CRN.Topo.canon and .automorphism -> SimClock (tick per read, jumps fwd/back, freezes)"]
ASSUMPTIONS = [
    "reference = plain backtracking enumeration of structure-preserving self-maps of the view (node key: kind; arc label: role+stoich in the bipartite view, none in the species view), independent of VF2 and of the IR search",
    "canonical graphs are compared on structure, kind, role, stoich; carried name attributes (label, edge_id, via, rules, stoich_r/p maps) are excluded",
    "with a timeout an answer may be flagged (early_stop / stopped_early / RuntimeError) and then only soundness is required: returned maps are automorphisms, orbits refine the true ones",
    "a flag is required to have a cause: the simulated clock exceeded the timeout during the call, or max_count was reached",
    "an address of a pure temporary may be re-issued at once (CPython frees it on return); any policy between never and always is legal",
]
RULE = ("per run: a random network (2-6 species, 1-5 reactions, coefficients 1-3, catalysts, repeated / reversible / ring reactions), "
        "an isomorphic twin (species renamed, reactions reordered, ids regenerated) and a one-edit neighbour; configuration "
        "include_rule x include_stoich x integer_ids; op list of canon / aut calls with timeout in {None,0,0.5,5,1e9} interleaved "
        "with fault ops: allocator policy (never|always|coin, lifo|fifo|rand), clock tick (0..2 s/read), jumps (+-), freezes, "
        "scheduled to land inside the calls; rare modes: regular-graph zoo (Frucht, Petersen, cube, prism, two triangles) as 6-12 species "
        "networks, 1440-automorphism families, edge_attr_keys re-assigned on a used canonicaliser, two consumers interleaved on one analyser, "
        "canonical form cross-checked with the peer interpreter. Non-trivial = >=1 fault fired and >=1 probe hit; distinct = distinct event digests")


# ---------------------------------------------------------------------------
# networks
# ---------------------------------------------------------------------------

Net = List[Dict[str, Any]]  # [{"id": str|None, "rule": str, "r": {sp:c}, "p": {sp:c}}]


def build_net(net: Net) -> CRNHyperGraph:
    H = CRNHyperGraph()
    for rx in net:
        H.add_rxn(dict(rx["r"]), dict(rx["p"]), rule=rx.get("rule") or "r", edge_id=rx.get("id"))
    return H


def gen_net(rng, deep: bool = False) -> Net:
    n_sp = rng.randint(4, 6) if deep else rng.randint(2, 6)
    species = [chr(ord("A") + i) for i in range(n_sp)]
    n_rx = rng.randint(3, 6) if deep else rng.randint(1, 5)
    style = rng.choice(["random", "random", "ring", "repeat", "reversible", "star"])
    if rng.random() < 0.004:
        # k identical reactions over the same species: more than 1000 (but fewer than 6000) self-maps in the bipartite view
        if rng.random() < 0.5:
            base = {"r": {"A": 1, "B": 1, "C": 1}, "p": {"D": 1, "E": 1}}   # 3! * 2! * 5! = 1440
            k_ = 5
        else:
            base = {"r": {"A": 1, "B": 1}, "p": {"C": 1}}                      # 2! * 6! = 1440
            k_ = 6
        return [{"id": None, "rule": "r", "r": dict(base["r"]), "p": dict(base["p"])} for _ in range(k_)]
    net: Net = []

    def side(maxn: int) -> Dict[str, int]:
        k = rng.choice([1, 1, 1, 2, 2, 3][:maxn + 3])
        d: Dict[str, int] = {}
        for s in rng.sample(species, min(k, len(species))):
            d[s] = rng.choice([1, 1, 1, 2, 3])
        return d

    if style == "ring":
        n = min(n_sp, max(2, n_rx))
        c = rng.choice([1, 1, 2])
        for i in range(n):
            net.append({"id": None, "rule": "r", "r": {species[i]: c}, "p": {species[(i + 1) % n]: c}})
        if rng.random() < 0.4:
            net[rng.randrange(len(net))]["r"][species[0]] = 2
    elif style == "repeat":
        base_r, base_p = side(2), side(2)
        for _ in range(n_rx):
            net.append({"id": None, "rule": "r", "r": dict(base_r), "p": dict(base_p)})
        if rng.random() < 0.5:
            net.append({"id": None, "rule": "r", "r": side(1), "p": side(1)})
    elif style == "reversible":
        for _ in range(max(1, n_rx // 2)):
            a, b = side(2), side(2)
            net.append({"id": None, "rule": "r", "r": dict(a), "p": dict(b)})
            net.append({"id": None, "rule": "r", "r": dict(b), "p": dict(a)})
    elif style == "star":
        hub = species[0]
        c = rng.choice([1, 2])
        for s in species[1:]:
            net.append({"id": None, "rule": "r", "r": {hub: 1}, "p": {s: c}})
        if rng.random() < 0.5 and len(net) > 1:
            net[-1]["p"] = {species[-1]: c + 1}
    else:
        for _ in range(n_rx):
            r, p = side(2), side(2)
            if rng.random() < 0.2 and r:
                cat = rng.choice(list(r))
                p[cat] = r[cat]  # catalyst
            net.append({"id": None, "rule": rng.choice(["r", "r", "R1"]), "r": r, "p": p})
    if rng.random() < 0.12 and net:
        rx = rng.choice(net)
        side_ = rng.choice(["r", "p"])
        if rx["r"] and rx["p"]:
            rx[side_] = {}                       # source / sink reaction
    if rng.random() < 0.08 and net:
        rx = rng.choice(net)
        for side_ in ("r", "p"):
            for sp_ in list(rx[side_]):
                if rng.random() < 0.5:
                    rx[side_][sp_] = rng.choice([10, 12, 20])   # multi-digit coefficients
    net = [rx for rx in net if rx["r"] or rx["p"]][:(6 if deep else 5)]
    if not net:
        net = [{"id": None, "rule": "r", "r": {"A": 1}, "p": {"B": 1}}]
    return net


ALL_SPECIES = [chr(ord("A") + i) for i in range(6)]

# regular graphs: colour refinement sees nothing in them, their automorphism groups differ wildly
ZOO = {
    "frucht": [(0, 1), (0, 6), (0, 7), (1, 2), (1, 7), (2, 3), (2, 8), (3, 4), (3, 9), (4, 5), (4, 9), (5, 6), (5, 10),
               (6, 10), (7, 11), (8, 9), (8, 11), (10, 11)],                       # 12 nodes, cubic, only the identity
    "petersen": [(0, 1), (1, 2), (2, 3), (3, 4), (4, 0), (0, 5), (1, 6), (2, 7), (3, 8), (4, 9), (5, 7), (7, 9), (9, 6), (6, 8), (8, 5)],  # 120
    "cube": [(0, 1), (1, 2), (2, 3), (3, 0), (4, 5), (5, 6), (6, 7), (7, 4), (0, 4), (1, 5), (2, 6), (3, 7)],       # 48
    "prism": [(0, 1), (1, 2), (2, 0), (3, 4), (4, 5), (5, 3), (0, 3), (1, 4), (2, 5)],                                   # 12
    "two_triangles": [(0, 1), (1, 2), (2, 0), (3, 4), (4, 5), (5, 3)],                                                     # 72
    "star6": [(0, i) for i in range(1, 7)],                                                                               # 720 (not regular: many self-maps)
}


def zoo_net(name: str) -> "Net":
    net = []
    for u, v in ZOO[name]:
        a, b = "S%d" % u, "S%d" % v
        net.append({"id": None, "rule": "r", "r": {a: 1}, "p": {b: 1}})
        net.append({"id": None, "rule": "r", "r": {b: 1}, "p": {a: 1}})
    return net


def twin_map(rng) -> Dict[str, str]:
    c = rng.random()
    names = (["Q%d" % i for i in range(len(ALL_SPECIES))] if c < 0.4 else
             [x.lower() for x in ALL_SPECIES] if c < 0.55 else list(ALL_SPECIES))
    rng.shuffle(names)
    return dict(zip(ALL_SPECIES, names))


def twin_of(net: Net, rng, m: Optional[Dict[str, str]] = None) -> Net:
    if m is None:
        m = twin_map(rng)
    tw = [{"id": None, "rule": rx["rule"], "r": {m[s]: c for s, c in rx["r"].items()},
           "p": {m[s]: c for s, c in rx["p"].items()}} for rx in net]
    rng.shuffle(tw)
    if rng.random() < 0.5:
        ids = ["e%d" % i for i in range(len(tw))]
        rng.shuffle(ids)
        for rx, i in zip(tw, ids):
            rx["id"] = i
    # shuffle dict insertion order inside sides
    for rx in tw:
        for side in ("r", "p"):
            items = list(rx[side].items())
            rng.shuffle(items)
            rx[side] = dict(items)
    return tw


def neighbour_of(net: Net, rng) -> Net:
    nb = copy.deepcopy(net)
    rx = rng.choice(nb)
    side = rng.choice(["r", "p"])
    species = sorted({s for r in net for s in list(r["r"]) + list(r["p"])})
    c = rng.random()
    if c < 0.5 and rx[side]:
        s = rng.choice(sorted(rx[side]))
        rx[side][s] = rx[side][s] + 1
    elif c < 0.8:
        s = rng.choice(species)
        rx[side][s] = rx[side].get(s, 0) + 1
    else:
        nb.append({"id": None, "rule": "r", "r": {species[0]: 1}, "p": {species[-1]: 2}})
    return nb


def generate(seed: int, tier: str = "quick") -> Dict[str, Any]:
    rng = rng_for(seed, "c18", "gen")
    if rng.random() < 0.012:
        # zoo run: species view of a regular graph, VF2-based analyser only (the IR search is too slow on them)
        name = rng.choice(sorted(ZOO))
        net = zoo_net(name)
        names = sorted({s_ for rx in net for s_ in list(rx["r"]) + list(rx["p"])})
        perm = list(names)
        rng.shuffle(perm)
        tw = [{"id": None, "rule": "r", "r": {perm[names.index(a)]: c for a, c in rx["r"].items()},
               "p": {perm[names.index(a)]: c for a, c in rx["p"].items()}} for rx in net]
        rng.shuffle(tw)
        cfg = {"net": net, "twin": tw, "nbr": net[:-2], "twin_map": {}, "persistent_objects": True, "zoo": name}
        ops = []
        for i_, api in enumerate(rng.sample(["summary", "nontrivial", "iter", "detect"], 3)):
            ops.append({"op": "aut", "s": derive(seed, "op", i_), "which": rng.choice(["net", "twin"]), "flags": [False, True, False],
                        "timeout": None, "max_count": 5000, "api": api, "reuse": rng.random() < 0.5, "bare": rng.random() < 0.5,
                        "also_orbits": True})
        return {"cfg": cfg, "ops": ops}
    deep = tier == "thorough" and rng.random() < 0.4
    net = gen_net(rng, deep)
    tm = twin_map(rng)
    cfg = {"net": net, "twin": twin_of(net, rng, tm), "nbr": neighbour_of(net, rng), "twin_map": tm,
           "persistent_objects": rng.random() < 0.7}
    flags = [rng.random() < 0.6, rng.random() < 0.7, rng.random() < 0.25]
    vary_flags = rng.random() < 0.5
    faulty = rng.random() < 0.8
    clocky = rng.random() < 0.5
    big = len(net) >= 5 and all(rx["r"] == net[0]["r"] and rx["p"] == net[0]["p"] for rx in net) and len(net[0]["r"]) >= 2
    if big:
        # a >1000-automorphism family is expensive: two exact calls in the bipartite view are enough
        k = 0

        def s2() -> int:
            nonlocal k
            k += 1
            return derive(seed, "op", k)
        w = rng.choice(["net", "twin"])
        return {"cfg": cfg, "ops": [
            {"op": "canon", "s": s2(), "which": w, "timeout": None, "flags": [True, rng.random() < 0.5, False], "api": "summary",
             "max_depth": None, "reuse": False, "bare": False},
            {"op": "aut", "s": s2(), "which": w, "flags": [True, rng.random() < 0.5, False], "timeout": None, "max_count": 5000,
             "api": rng.choice(["summary", "iter"]), "reuse": False, "bare": False}]}
    ops: List[Dict[str, Any]] = []
    k = 0

    def s() -> int:
        nonlocal k
        k += 1
        return derive(seed, "op", k)

    def fault() -> Dict[str, Any]:
        c = rng.random()
        if c < 0.5 or not clocky:
            return {"op": "alloc", "s": s(), "p_reuse": rng.choice([0.0, 0.3, 0.5, 0.7, 1.0]),
                    "pick": rng.choice(["lifo", "fifo", "rand"])}
        if c < 0.7:
            return {"op": "clock_tick", "s": s(), "dt": rng.choice([0.0, 1e-6, 1e-3, 0.1, 2.0])}
        if c < 0.9:
            return {"op": "clock_jump", "s": s(), "after": rng.randint(0, 12), "dt": rng.choice([3.0, 60.0, 1e6, -1.0, -100.0, -1e6])}
        return {"op": "clock_freeze", "s": s(), "after": rng.randint(0, 6), "k": rng.randint(1, 30)}

    if faulty:
        ops.append({"op": "alloc", "s": s(), "p_reuse": rng.choice([0.3, 0.5, 0.5, 0.7, 1.0]), "pick": rng.choice(["lifo", "fifo", "rand"])})
    for _ in range(rng.randint(8, 20) if deep else rng.randint(3, 10)):
        if faulty and rng.random() < 0.45:
            ops.append(fault())
        if vary_flags and rng.random() < 0.4:
            flags = [rng.random() < 0.6, rng.random() < 0.6, rng.random() < 0.25]
        if rng.random() < 0.06:
            sp = rng.sample(ALL_SPECIES[:4], 2)
            if rng.random() < 0.4:
                # an edit that keeps the number of species and reactions: one reaction is replaced by its reverse
                ops.append({"op": "edit", "s": s(), "reverse": rng.randrange(8)})
            else:
                ops.append({"op": "edit", "s": s(), "rx": {"r": {sp[0]: rng.choice([1, 2])}, "p": {sp[1]: rng.choice([1, 1, 3])}}})
        which = rng.choice(["net", "net", "twin", "twin", "nbr"])
        tmo = rng.choice([None, None, None, 1e9]) if not clocky else rng.choice([None, None, 0, 0.5, 5, 1e9])
        if rng.random() < 0.12:
            ops.append({"op": "wl", "s": s(), "which": which, "flags": list(flags), "api": rng.choice(["class", "func"]),
                        "bare": rng.random() < 0.4})
        elif rng.random() < 0.6:
            ops.append({"op": "canon", "s": s(), "which": which, "timeout": tmo, "flags": list(flags),
                        "api": rng.choice(["summary", "summary", "graph", "canonical"]),
                        "max_depth": rng.choice([None, None, None, None, 0, 1, 2, 3]), "reuse": rng.random() < 0.6,
                        "bare": rng.random() < 0.4})
            if rng.random() < 0.08:
                ops[-1]["rekey"] = True
            if rng.random() < 0.05:
                ops[-1]["peer"] = True
            if rng.random() < 0.15:
                ops[-1]["accessors"] = True
        else:
            ops.append({"op": "aut", "s": s(), "which": which, "flags": list(flags), "timeout": (tmo if rng.random() < 0.7 else "default"),
                        "max_count": rng.choice([100, 1000, 5000, 3]),
                        "api": rng.choice(["summary", "summary", "detect", "nontrivial", "iter"]), "reuse": rng.random() < 0.6,
                        "bare": rng.random() < 0.4})
            if ops[-1]["api"] == "detect" and rng.random() < 0.3:
                ops[-1]["max_count"] = None
            if ops[-1]["api"] == "summary" and rng.random() < 0.3:
                ops[-1]["also_orbits"] = True
            if ops[-1]["api"] == "iter" and rng.random() < 0.4:
                # two consumers of one analyser: the lazy enumeration is suspended while another call runs on the same object
                ops[-1]["timeout"] = None
                ops[-1]["interleave"] = {"k": rng.choice([0, 1, 1, 2, 3]), "other": rng.choice(["iter_full", "iter_part", "nontrivial", "summary"])}
    # follow-ups: the same analyser object serves a limited call and then an unlimited one (and vice versa)
    out_ops: List[Dict[str, Any]] = []
    for o in ops:
        out_ops.append(o)
        if o["op"] in ("canon", "aut") and rng.random() < 0.3:
            f = copy.deepcopy(o)
            f["s"] = s()
            f["reuse"] = True
            o["reuse"] = True
            limited = (o.get("timeout") not in (None, 1e9)) or o.get("max_depth") is not None
            if limited:
                f["timeout"] = None
                f["max_depth"] = None
            else:
                f["timeout"] = rng.choice([0, 0.5, 5]) if clocky else None
                if f["op"] == "canon":
                    f["max_depth"] = rng.choice([0, 1, 2])
            if f["op"] == "aut":
                f["api"] = rng.choice(["summary", "iter", "nontrivial"])
                if f.get("max_count") is None:
                    f["max_count"] = 1000
            else:
                f["api"] = rng.choice(["summary", "graph"])
            if clocky and rng.random() < 0.5:
                out_ops.append({"op": "clock_jump", "s": s(), "after": 0, "dt": rng.choice([3.0, 60.0, 1e6])})
            out_ops.append(f)
    if rng.random() < 0.06:
        # analyse - edit in place (same number of species and reactions) - analyse again, same object, same settings
        cfg["persistent_objects"] = True
        w = rng.choice(["net", "twin"])
        fl = [rng.random() < 0.5, rng.random() < 0.5, False]
        mk_c = lambda api: {"op": "canon", "s": s(), "which": w, "timeout": None, "flags": list(fl), "api": api,  # noqa: E731
                            "max_depth": None, "reuse": rng.random() < 0.5, "bare": False}
        out_ops.append(mk_c("summary"))
        out_ops.append({"op": "edit", "s": s(), "reverse": rng.randrange(8)})
        out_ops.append(mk_c(rng.choice(["summary", "graph", "canonical"])))
        out_ops.append({"op": "aut", "s": s(), "which": w, "flags": list(fl), "timeout": None, "max_count": 5000,
                        "api": rng.choice(["summary", "iter", "detect"]), "reuse": rng.random() < 0.5, "bare": False})
    return {"cfg": cfg, "ops": out_ops}


# ---------------------------------------------------------------------------
# reference
# ---------------------------------------------------------------------------


def view_ref(Gv: nx.DiGraph, bipartite: bool, include_stoich: bool) -> gr.G:
    if bipartite:
        ek = (lambda d: (d.get("role"), d.get("stoich"))) if include_stoich else (lambda d: (d.get("role"), None))
    else:
        ek = lambda d: None  # noqa: E731
    return gr.from_nx(Gv, lambda d: d.get("kind"), ek)


def expected_view(net: Net, H: CRNHyperGraph, bipartite: bool, include_stoich: bool) -> Tuple[Dict[Any, Any], Dict[Tuple[Any, Any], Any]]:
    """Independent construction of the view from the reaction list (string ids)."""
    nodes: Dict[Any, Any] = {}
    arcs: Dict[Tuple[Any, Any], Any] = {}
    for s in H.species:
        nodes[s] = "species"
    for eid, e in H.edges.items():
        r, p = e.reactants.to_dict(), e.products.to_dict()
        if bipartite:
            nodes[eid] = "reaction"
            for s, c in r.items():
                arcs[(s, eid)] = ("reactant", c if include_stoich else None)
            for s, c in p.items():
                arcs[(eid, s)] = ("product", c if include_stoich else None)
        else:
            for a in r:
                for b in p:
                    arcs[(a, b)] = None
    return nodes, arcs


def _refinement_rounds(g: gr.G) -> int:
    """Rounds of colour refinement (harness-side 1-WL on the view) that still split a cell."""
    col = {n: (g.key[n],) for n in g.nodes}
    rounds = 0
    while True:
        new = {}
        for n in g.nodes:
            new[n] = (col[n],
                      tuple(sorted((repr(g.arcs[(n, m)]), col[m]) for m in g.out[n])),
                      tuple(sorted((repr(g.arcs[(m, n)]), col[m]) for m in g.inn[n])))
        if len(set(new.values())) == len(set(col.values())):
            return rounds
        ids = {c: i for i, c in enumerate(sorted(set(new.values()), key=repr))}
        col = {n: (ids[new[n]],) for n in g.nodes}
        rounds += 1


def scramble(obj: Any, depth: int = 0) -> None:
    """The caller edits what it got back (returned containers belong to the caller): clear dicts / lists / sets of
    a result, recursively, but never the values stored inside graphs (attribute values may legitimately be shared)."""
    if depth > 3:
        return
    if isinstance(obj, dict):
        for v in list(obj.values()):
            scramble(v, depth + 1)
        obj.clear()
    elif isinstance(obj, (list, set)):
        for v in list(obj):
            scramble(v, depth + 1)
        obj.clear()
    elif isinstance(obj, nx.Graph):
        try:
            obj.remove_nodes_from(list(obj.nodes))
        except Exception:
            pass


_PEERS: Dict[int, Any] = {}


def peer_canon(net: Net, flags: List[bool]) -> Optional[Dict[str, Any]]:
    """Ask the peer interpreter (another PYTHONHASHSEED) for the canonical form of the same network."""
    import os
    import subprocess
    import sys
    pid = os.getpid()
    p = _PEERS.get(pid)
    if p is None or p.poll() is not None:
        env = dict(os.environ)
        env["PYTHONHASHSEED"] = str((int(env.get("PYTHONHASHSEED", "0") or 0) + 7919) % 4294967296)
        here = os.path.dirname(os.path.dirname(os.path.abspath(__file__)))
        p = subprocess.Popen([sys.executable, os.path.join(here, "peer.py")], stdin=subprocess.PIPE, stdout=subprocess.PIPE,
                             stderr=subprocess.DEVNULL, env=env, text=True, bufsize=1)
        _PEERS.clear()
        _PEERS[pid] = p
        if not p.stdout.readline():
            return None
    try:
        p.stdin.write(json.dumps({"net": net, "flags": [bool(f) for f in flags]}) + "\n")
        p.stdin.flush()
        line = p.stdout.readline()
    except (BrokenPipeError, OSError):
        return None
    return json.loads(line) if line else None


def canon_sig(Gc: nx.DiGraph, bipartite: bool, include_stoich: bool) -> Any:
    g = view_ref(Gc, bipartite, include_stoich)
    return (sorted((n, g.key[n]) for n in g.nodes), sorted((u, v, repr(l)) for (u, v), l in g.arcs.items()))


# ---------------------------------------------------------------------------
# execution
# ---------------------------------------------------------------------------


def execute(case: Dict[str, Any], sim: Sim) -> None:
    world = World(sim)
    clock = SimClock(sim)
    seams = Seams()
    with GCControl():
        seams.install(id_fn=world.id_fn(), time_obj=TimeFacade(clock))
        try:
            _run(case, sim, world, clock)
        finally:
            seams.uninstall()


def _run(case: Dict[str, Any], sim: Sim, world: World, clock: SimClock) -> None:
    cfg = case["cfg"]
    nets: Dict[str, Net] = {w: copy.deepcopy(cfg[w]) for w in ("net", "twin", "nbr")}
    objs: Dict[str, CRNHyperGraph] = {}
    version = [0]
    bip = sto = iid = False
    cond_base = ""
    truth_cache: Dict[Any, Any] = {}
    canon_seen: Dict[Any, Any] = {}   # (which, view flags, version) -> canon signature (unflagged answers only)

    analysers: Dict[Any, Any] = {}

    def flag_kwargs(op: Dict[str, Any]) -> Dict[str, Any]:
        """Constructor / function kwargs; when a flag equals its documented default (include_rule=False,
        include_stoich=True, integer_ids=False) and the op says so, the default is relied upon."""
        kw: Dict[str, Any] = {}
        bare = bool(op.get("bare"))
        if not (bare and bip is False):
            kw["include_rule"] = bip
        if not (bare and sto is True):
            kw["include_stoich"] = sto
        if not (bare and iid is False):
            kw["integer_ids"] = iid
        if bare and len(kw) < 3:
            sim.probe("call_relying_on_signature_defaults")
        return kw

    def analyser(kind: str, which: str, reuse: bool, ctor):
        """Long-lived analyser objects: the same instance serves several calls with different limits."""
        key = (kind, which, bip, sto, iid, version[0], bool(cfg.get("persistent_objects")))
        if reuse and cfg.get("persistent_objects") and key in analysers:
            sim.probe("analyser_object_reused")
            return analysers[key]
        obj = ctor()
        analysers[key] = obj
        return obj

    def get_obj(which: str) -> CRNHyperGraph:
        if not cfg.get("persistent_objects"):
            return build_net(nets[which])
        if which not in objs:
            objs[which] = build_net(nets[which])
        else:
            sim.probe("same_hypergraph_object_reanalysed")
        return objs[which]

    def truth(which: str, Gv: nx.DiGraph) -> Dict[str, Any]:
        which = (which, bip, sto and bip, iid and bip, version[0])
        t = truth_cache.get(which)
        if t is None:
            g = view_ref(Gv, bip, sto)
            auts = gr.automorphisms(g, limit=6001)
            t = {"g": g, "count": len(auts), "capped": len(auts) > 6000, "orbits": gr.orbits_of(g.nodes, auts)}
            truth_cache[which] = t
            if t["count"] > 2:
                sim.probe("symmetric_family")
            if 1000 < t["count"] <= 6000:
                sim.probe("more_than_1000_automorphisms")
            if _refinement_rounds(g) >= 2:
                sim.probe("refinement_rounds_ge_2")
        return t

    def check_view(which: str, H: CRNHyperGraph, Gv: nx.DiGraph) -> None:
        if iid:
            return
        nodes, arcs = expected_view(nets[which], H, bip, sto)
        g = view_ref(Gv, bip, sto)
        if dict(g.key) != nodes or g.arcs != arcs:
            raise Violation(PROP, "_CRNGraphBackend.G", "view_differs_from_definition", cond_base,
                            {"nodes": sorted(map(str, g.key.items())), "want_nodes": sorted(map(str, nodes.items())),
                             "arcs": sorted(map(str, g.arcs.items())), "want_arcs": sorted(map(str, arcs.items()))})

    def refines(orbs: Iterable[Iterable[Any]], true_orbs: set) -> bool:
        for o in orbs:
            o = set(o)
            if o and not any(o <= t for t in true_orbs):
                return False
        return True

    def as_orbit_set(orbs: Iterable[Iterable[Any]]) -> set:
        return {frozenset(o) for o in orbs if o}

    def op_window():
        return {"first": None, "max": None}

    for op in case["ops"]:
        sim.step()
        world.reseed(op.get("s", 0))
        k = op["op"]
        if k == "alloc":
            world.set_alloc_policy(op["p_reuse"], op["pick"], 0.0)
            sim.event("alloc", [op["p_reuse"], op["pick"]])
            continue
        if k == "clock_tick":
            clock.set_tick(op["dt"])
            sim.fault("clock_tick_change")
            sim.event("clock_tick", op["dt"])
            continue
        if k == "clock_jump":
            clock.schedule(op["after"], "jump", op["dt"])
            sim.event("clock_jump", [op["after"], op["dt"]])
            continue
        if k == "clock_freeze":
            clock.schedule(op["after"], "freeze", op["k"])
            sim.event("clock_freeze", [op["after"], op["k"]])
            continue
        if k == "edit" and "reverse" in op:
            tm = cfg.get("twin_map") or {}
            base = nets["net"][op["reverse"] % len(nets["net"])]
            done = 0
            for w in ("net", "twin", "nbr"):
                mp = tm if w == "twin" else {}
                r = {mp.get(a, a): c for a, c in base["r"].items()}
                p = {mp.get(a, a): c for a, c in base["p"].items()}
                if r == p:
                    continue
                j = next((i for i, rx_ in enumerate(nets[w]) if rx_["r"] == r and rx_["p"] == p
                          and (rx_.get("rule") or "r") == (base.get("rule") or "r")), None)
                if j is None:
                    continue
                old = nets[w].pop(j)
                nets[w].append({"id": None, "rule": old.get("rule") or "r", "r": dict(p), "p": dict(r)})
                if w in objs:
                    eid = list(objs[w].edges)[j]
                    objs[w].remove_rxn(eid)
                    objs[w].add_rxn(dict(p), dict(r), rule=old.get("rule") or "r")
                done += 1
            if done:
                version[0] += 1
                sim.probe("network_edited_between_analyses")
                sim.probe("edit_keeps_species_and_reaction_counts")
            sim.event("edit_reverse", [op["reverse"], done])
            continue
        if k == "edit":
            rx = op["rx"]
            tm = cfg.get("twin_map") or {}
            for w in ("net", "twin", "nbr"):
                mp = tm if w == "twin" else {}
                r = {mp.get(a, a): c for a, c in rx["r"].items()}
                p = {mp.get(a, a): c for a, c in rx["p"].items()}
                nets[w].append({"id": None, "rule": "r", "r": r, "p": p})
                if w in objs:
                    objs[w].add_rxn(dict(r), dict(p), rule="r")
            version[0] += 1
            sim.probe("network_edited_between_analyses")
            sim.event("edit", rx)
            continue
        if cfg.get("zoo"):
            sim.probe("regular_graph_zoo")
        which = op["which"]
        fl = op.get("flags") or [cfg.get("include_rule", False), cfg.get("include_stoich", True), cfg.get("integer_ids", False)]
        bip, sto, iid = bool(fl[0]), bool(fl[1]), bool(fl[2])
        cond_base = "%s view, stoich=%s" % ("bipartite" if bip else "species", "on" if (sto and bip) else "off")
        H = get_obj(which)
        reused_before = len(world.main_alloc.reused_log)
        eph_before = sim.probes.get("ephemeral_id", 0)
        clock.begin_window()
        if k == "wl":
            site = "WLCanonicalizer.summary"
            if op.get("api") == "func":
                wl = wl_canonical(H, **flag_kwargs(op))
            else:
                wl = WLCanonicalizer(H, **flag_kwargs(op))
            ws = wl.summary()
            if as_orbit_set(wl.orbits()) != as_orbit_set(ws["orbits"]) or canon_sig(wl.graph(), bip, sto) != canon_sig(ws["canon_graph"], bip, sto):
                raise Violation(PROP, site, "result_not_repeatable", cond_base + "; WL accessors differ from summary", {})
            Gv = wl.G
            check_view(which, H, Gv)
            T = truth(which, Gv)
            gc_ref = view_ref(ws["canon_graph"], bip, sto)
            if not gr.exists(T["g"], gc_ref, mode="iso"):
                raise Violation(PROP, site, "canon_not_isomorphic_to_view", cond_base + "; WL", {"net": nets[which]})
            worb = [set(o) for o in ws["orbits"]]
            for to in T["orbits"]:
                if not any(to <= w for w in worb):
                    raise Violation(PROP, site, "orbits_wrong", cond_base + "; WL colour classes split a true orbit",
                                    {"true_orbit": sorted(map(str, to)), "wl": sorted(sorted(map(str, o)) for o in worb)})
            if ws.get("automorphism_count") is not None and not T["capped"] and ws["automorphism_count"] < T["count"]:
                raise Violation(PROP, site, "automorphism_count_wrong", cond_base + "; WL estimate below the true count",
                                {"got": ws["automorphism_count"], "true": T["count"]})
            hist = sorted(ws["color_hist"].items())
            wk = ("wl", which, bip, sto and bip, version[0])
            if canon_seen.get(wk, hist) != hist:
                raise Violation(PROP, site, "result_not_repeatable", cond_base + "; WL", {})
            canon_seen[wk] = hist
            for other in ("net", "twin"):
                ok_ = ("wl", other, bip, sto and bip, version[0])
                if other != which and which in ("net", "twin") and ok_ in canon_seen and canon_seen[ok_] != hist:
                    raise Violation(PROP, site, "twins_get_different_canon", cond_base + "; WL colour histogram",
                                    {"net": nets["net"], "twin": nets["twin"]})
            sim.probe("wl_checked")
            sim.state(("wl", bip, sto, len(worb), Gv.number_of_nodes()))
            sim.event("wl", {"which": which, "cells": len(worb), "iters": ws["iters_run"]})
            continue
        if k == "canon":
            tmo = op["timeout"]
            md = op.get("max_depth")
            unlimited = tmo is None and md is None
            site = "CRNCanonicalizer." + op["api"]
            flagged = False
            s: Optional[Dict[str, Any]] = None
            c = analyser("canon", which, bool(op.get("reuse")),
                         lambda: CRNCanonicalizer(H, **flag_kwargs(op)))
            try:
                if op["api"] == "canonical":
                    c = canonical(H, timeout_sec=tmo, max_depth=md, **flag_kwargs(op))
                    s = c.summary(timeout_sec=tmo, max_depth=md)
                else:
                    if op["api"] == "graph" and unlimited:
                        Gc_only = c.graph()
                        s = c.summary()
                        if canon_sig(Gc_only, bip, sto) != canon_sig(s["canon_graph"], bip, sto):
                            raise Violation(PROP, site, "graph_differs_from_summary", cond_base, {})
                    else:
                        s = c.summary(timeout_sec=tmo, max_depth=md)
            except RuntimeError as ex:
                if unlimited:
                    raise Violation(PROP, site, "unexpected_exception", cond_base, {"exc": repr(ex)})
                flagged = True
            if md is not None:
                sim.probe("depth_limited_call")
            elapsed = clock.window_elapsed()
            Gv = c.G
            check_view(which, H, Gv)
            T = truth(which, Gv)
            if len(world.main_alloc.reused_log) > reused_before:
                sim.probe("epoch_address_reused")
            if sim.probes.get("ephemeral_id", 0) - eph_before >= 2:
                sim.probe("refinement_needed_2_passes")
            if s is not None:
                flagged = bool(s["early_stop"])
                Gc = s["canon_graph"]
                perm = s.get("canonical_perm") or []
                mp = {v: i + 1 for i, v in enumerate(perm)}
                got = canon_sig(Gc, bip, sto)
                exact = (sorted(mp.keys(), key=str) == sorted(Gv.nodes(), key=str)
                         and canon_sig(nx.relabel_nodes(Gv, mp, copy=True), bip, sto) == got)
                if not exact and not gr.exists(T["g"], view_ref(Gc, bip, sto), mode="iso"):
                    # (the relation between canonical_perm and the node labels is not part of the property:
                    #  only a canonical graph that is not isomorphic to its view is a violation)
                    raise Violation(PROP, site, "canon_not_isomorphic_to_view", cond_base, {"got": got, "net": nets[which]})
                for m in s["mappings"]:
                    if not gr.is_valid_map(T["g"], T["g"], m, mode="iso"):
                        raise Violation(PROP, site, "returned_map_not_automorphism", cond_base, {"map": {str(a): str(b) for a, b in m.items()}})
                if not flagged:
                    if not T["capped"]:
                        if s["automorphism_count"] != T["count"]:
                            raise Violation(PROP, site, "automorphism_count_wrong", cond_base,
                                            {"got": s["automorphism_count"], "true": T["count"], "net": nets[which]})
                        if as_orbit_set(s["orbits"]) != T["orbits"]:
                            raise Violation(PROP, site, "orbits_wrong", cond_base,
                                            {"got": sorted(sorted(map(str, o)) for o in s["orbits"]),
                                             "true": sorted(sorted(map(str, o)) for o in T["orbits"])})
                    ck = lambda w: (w, bip, sto and bip, version[0])  # noqa: E731
                    prev = canon_seen.get(ck(which))
                    if prev is not None and prev != got:
                        cls = "result_depends_on_allocator" if world.main_alloc.reused_log else "result_not_repeatable"
                        raise Violation(PROP, site, cls, cond_base, {"first": prev, "now": got})
                    canon_seen[ck(which)] = got
                    for other in ("net", "twin"):
                        if other != which and which in ("net", "twin") and ck(other) in canon_seen:
                            sim.probe("twin_compared")
                            if canon_seen[ck(other)] != got:
                                raise Violation(PROP, site, "twins_get_different_canon",
                                                cond_base + ("; address reuse" if world.main_alloc.reused_log else ""),
                                                {"net": nets["net"], "twin": nets["twin"], which: got, other: canon_seen[ck(other)]})
                    if ck("nbr") in canon_seen and ck("net") in canon_seen and which in ("nbr", "net"):
                        sim.probe("neighbour_compared")
                        tk = lambda w: (w, bip, sto and bip, iid and bip, version[0])  # noqa: E731
                        same_view = (gr.exists(truth_cache[tk("net")]["g"], truth_cache[tk("nbr")]["g"], mode="iso")
                                     if tk("net") in truth_cache and tk("nbr") in truth_cache else None)
                        if same_view is not None:
                            if same_view and canon_seen[ck("nbr")] != canon_seen[ck("net")]:
                                raise Violation(PROP, site, "twins_get_different_canon", cond_base + "; neighbour with isomorphic view", {})
                            if not same_view and canon_seen[ck("nbr")] == canon_seen[ck("net")]:
                                raise Violation(PROP, site, "non_isomorphic_get_same_canon", cond_base, {"net": nets["net"], "nbr": nets["nbr"]})
                else:
                    sim.probe("flagged_partial_answer")
                    if not refines(s["orbits"], T["orbits"]):
                        raise Violation(PROP, site, "orbits_wrong", cond_base + "; flagged", {"got": sorted(sorted(map(str, o)) for o in s["orbits"])})
            if flagged:
                if unlimited:
                    raise Violation(PROP, site, "flagged_without_cause", cond_base + ("; analyser object reused" if op.get("reuse") else ""),
                                    {"timeout": None, "max_depth": None})
                if md is None:
                    sim.probe("timeout_fired")
                    if elapsed is not None and elapsed <= tmo:
                        raise Violation(PROP, site, "flagged_without_cause", cond_base, {"timeout": tmo, "max_elapsed_seen": elapsed})
            sim.state(("canon", bip, sto, which, flagged, T["count"] if not T["capped"] else -1, Gv.number_of_nodes(), Gv.number_of_edges()))
            sim.event("canon", {"which": which, "api": op["api"], "flagged": flagged,
                                "count": (s["automorphism_count"] if s else None), "sig": (canon_sig(s["canon_graph"], bip, sto) if (s and not flagged) else None)})
            if op.get("accessors") and unlimited and s is not None and not flagged and not T["capped"]:
                sim.probe("orbits_accessor_called")
                if as_orbit_set(c.orbits()) != T["orbits"]:
                    raise Violation(PROP, "CRNCanonicalizer.orbits", "orbits_wrong", cond_base + "; accessor", {})
                if bool(c.has_nontrivial_automorphism()) != (T["count"] > 1):
                    raise Violation(PROP, "CRNCanonicalizer.has_nontrivial_automorphism", "automorphism_count_wrong", cond_base + "; accessor",
                                    {"true_count": T["count"]})
            if op.get("peer") and unlimited and s is not None and not flagged and not T["capped"] and T["count"] <= 200:
                # the canonical form is what gets stored and compared later - by another process
                ans = peer_canon(nets[which], [bip, sto, iid])
                if ans is None or "error" in ans or ans.get("early"):
                    sim.probe("peer_interpreter_unavailable")
                else:
                    sim.probe("canon_compared_with_another_interpreter")
                    if ans["sig"] != repr(got):
                        raise Violation(PROP, site, "canon_differs_across_processes", cond_base + "; interpreter with another hash salt",
                                        {"net": nets[which], "here": repr(got), "there": ans["sig"]})
            if op.get("rekey") and bip and unlimited and s is not None and not flagged and not T["capped"]:
                # the attribute selection is a public attribute of the object: a caller narrows it on a warmed object,
                # asks again, widens it back, asks again
                sim.probe("analyser_attribute_rekeyed")
                g_blind = view_ref(Gv, True, False)
                auts_b = gr.automorphisms(g_blind, limit=6001)
                if len(auts_b) <= 6000:
                    # the same selection given at construction time
                    s_c = CRNCanonicalizer(H, edge_attr_keys=("role",), **flag_kwargs(op)).summary()
                    if not s_c["early_stop"] and (s_c["automorphism_count"] != len(auts_b)
                                                  or as_orbit_set(s_c["orbits"]) != gr.orbits_of(g_blind.nodes, auts_b)):
                        raise Violation(PROP, site, "automorphism_count_wrong", "bipartite view; edge_attr_keys=('role',) at construction",
                                        {"got": s_c["automorphism_count"], "true": len(auts_b), "net": nets[which]})
                for keys, want_n, want_orb in ((("role",), len(auts_b), gr.orbits_of(g_blind.nodes, auts_b)),
                                               (("role", "stoich"), T["count"], T["orbits"])):
                    try:
                        c.edge_attr_keys = keys
                    except AttributeError:      # an implementation may make the selection read-only
                        sim.probe("attribute_selection_is_read_only")
                        break
                    s_k = c.summary()
                    if want_n > 6000 or s_k["early_stop"]:
                        continue
                    if s_k["automorphism_count"] != want_n or as_orbit_set(s_k["orbits"]) != want_orb:
                        raise Violation(PROP, site, "automorphism_count_wrong", "bipartite view; edge_attr_keys re-assigned on a used object",
                                        {"keys": list(keys), "got": s_k["automorphism_count"], "true": want_n, "net": nets[which]})
            if s is not None:
                scramble(s)
        else:  # aut
            tmo = op["timeout"]
            mc_arg = op["max_count"]            # None is documented for detect_automorphisms only ("a large default is used")
            if mc_arg is None and op["api"] != "detect":
                mc_arg = 1000
            mc = 10_000_000 if mc_arg is None else mc_arg
            api = op["api"]
            site = {"summary": "CRNAutomorphism.summary", "detect": "detect_automorphisms", "iter": "CRNAutomorphism.iter",
                    "nontrivial": "CRNAutomorphism.has_nontrivial_automorphism"}[api]
            a = analyser("aut", which, bool(op.get("reuse")),
                         lambda: CRNAutomorphism(H, **flag_kwargs(op)))
            eff_tmo: Optional[float]
            if api == "iter":
                it_tmo = None if tmo == "default" else tmo
                il = op.get("interleave")
                if il and it_tmo is None:
                    sim.probe("enumeration_suspended_while_other_call_runs")
                    it1 = a.iter(max_count=mc, timeout_sec=None)
                    maps_ = []
                    for _ in range(il["k"]):
                        try:
                            maps_.append(next(it1))
                        except StopIteration:
                            break
                    held = None
                    if il["other"] == "iter_full":
                        list(a.iter(max_count=mc, timeout_sec=None))
                    elif il["other"] == "iter_part":
                        held = a.iter(max_count=mc, timeout_sec=None)
                        next(held, None)
                    elif il["other"] == "nontrivial":
                        a.has_nontrivial_automorphism(timeout_sec=None)
                    else:
                        a.summary(max_count=50, timeout_sec=None)
                    maps_.extend(it1)
                    del held
                else:
                    maps_ = list(a.iter(max_count=mc, timeout_sec=it_tmo))
                elapsed = clock.window_elapsed()
                Gv = a.G
                check_view(which, H, Gv)
                T = truth(which, Gv)
                for m in maps_:
                    if not gr.is_valid_map(T["g"], T["g"], m, mode="iso"):
                        raise Violation(PROP, site, "returned_map_not_automorphism", cond_base, {"map": {str(x): str(y) for x, y in m.items()}})
                if len({tuple(sorted((str(x), str(y)) for x, y in m.items())) for m in maps_}) != len(maps_):
                    raise Violation(PROP, site, "automorphism_count_wrong", cond_base + "; duplicate maps", {"n": len(maps_)})
                if not T["capped"]:
                    want_n = min(T["count"], mc)
                    if len(maps_) > want_n:
                        raise Violation(PROP, site, "automorphism_count_wrong", cond_base, {"got": len(maps_), "true": T["count"], "max_count": mc})
                    no_clock_cause = it_tmo is None or (elapsed is not None and elapsed <= it_tmo)
                    if len(maps_) < want_n and no_clock_cause:
                        raise Violation(PROP, site, "unflagged_partial_answer", cond_base + ("; analyser object reused" if op.get("reuse") else ""),
                                        {"got": len(maps_), "true": T["count"], "max_count": mc, "timeout": it_tmo, "max_elapsed_seen": elapsed})
                sim.state(("iter", bip, sto, len(maps_)))
                sim.event("aut", {"which": which, "api": api, "n": len(maps_)})
                scramble(maps_)
                continue
            if api == "summary":
                if tmo == "default":
                    res = a.summary(max_count=mc)
                    eff_tmo = 5.0
                else:
                    res = a.summary(max_count=mc, timeout_sec=tmo)
                    eff_tmo = tmo
                if op.get("also_orbits") and tmo is None:
                    # the convenience accessor reports the orbits of the same enumeration
                    orb_only = a.orbits(max_count=mc, timeout_sec=None)
                    sim.probe("orbits_accessor_called")
                    if not res["stopped_early"] and as_orbit_set(orb_only) != as_orbit_set(res["orbits"]):
                        raise Violation(PROP, "CRNAutomorphism.orbits", "orbits_wrong", cond_base + "; accessor differs from summary",
                                        {"accessor": sorted(sorted(map(str, o)) for o in orb_only),
                                         "summary": sorted(sorted(map(str, o)) for o in res["orbits"])})
            elif api == "detect":
                if tmo == "default":
                    res = detect_automorphisms(H, max_count=mc_arg, **flag_kwargs(op))
                    eff_tmo = 10.0
                else:
                    res = detect_automorphisms(H, max_count=mc_arg, timeout_sec=tmo, **flag_kwargs(op))
                    eff_tmo = 1e9 if tmo is None else tmo
            else:
                if tmo == "default":
                    nt = a.has_nontrivial_automorphism()
                    eff_tmo = 5.0
                else:
                    nt = a.has_nontrivial_automorphism(timeout_sec=tmo)
                    eff_tmo = tmo
            elapsed = clock.window_elapsed()
            if tmo == "default" and clock.tick >= 0.1:
                sim.probe("slow_clock_default_timeout")
            Gv = a.G
            check_view(which, H, Gv)
            T = truth(which, Gv)
            if api == "nontrivial":
                if nt and T["count"] <= 1 and not T["capped"]:
                    raise Violation(PROP, site, "automorphism_count_wrong", cond_base, {"got": True, "true_count": T["count"]})
                if (not nt) and T["count"] > 1 and (eff_tmo is None or (elapsed is not None and elapsed <= eff_tmo)):
                    raise Violation(PROP, site, "automorphism_count_wrong", cond_base + "; no timeout elapsed",
                                    {"got": False, "true_count": T["count"], "timeout": eff_tmo, "elapsed": elapsed})
                sim.state(("nontrivial", bip, sto, nt, T["count"] > 1))
                sim.event("aut", {"which": which, "api": api, "nt": nt})
                continue
            stopped = bool(res["stopped_early"])
            cnt = res["automorphism_count"]
            for m in res["sample_mappings"]:
                if not gr.is_valid_map(T["g"], T["g"], m, mode="iso"):
                    raise Violation(PROP, site, "returned_map_not_automorphism", cond_base,
                                    {"map": {str(x): str(y) for x, y in m.items()}, "net": nets[which]})
            if not T["capped"]:
                if cnt > T["count"]:
                    raise Violation(PROP, site, "automorphism_count_wrong", cond_base, {"got": cnt, "true": T["count"], "net": nets[which]})
                if not stopped:
                    if cnt != T["count"]:
                        raise Violation(PROP, site, "unflagged_partial_answer", cond_base, {"got": cnt, "true": T["count"]})
                    if as_orbit_set(res["orbits"]) != T["orbits"]:
                        raise Violation(PROP, site, "orbits_wrong", cond_base, {"got": sorted(sorted(map(str, o)) for o in res["orbits"]),
                                                                               "true": sorted(sorted(map(str, o)) for o in T["orbits"])})
                else:
                    sim.probe("flagged_partial_answer")
                    if not refines(res["orbits"], T["orbits"]):
                        raise Violation(PROP, site, "orbits_wrong", cond_base + "; flagged", {})
                    timed_out = eff_tmo is not None and elapsed is not None and elapsed > eff_tmo
                    if timed_out:
                        sim.probe("timeout_fired")
                    if not timed_out and cnt < mc:
                        raise Violation(PROP, site, "flagged_without_cause", cond_base,
                                        {"count": cnt, "max_count": mc, "timeout": eff_tmo, "max_elapsed_seen": elapsed})
            sim.state(("aut", bip, sto, stopped, T["count"] if not T["capped"] else -1, api))
            sim.event("aut", {"which": which, "api": api, "stopped": stopped, "count": cnt})
            scramble(res)


# ---------------------------------------------------------------------------
# simplification
# ---------------------------------------------------------------------------


def simplify(case: Dict[str, Any]) -> Iterable[Dict[str, Any]]:
    cfg = case["cfg"]
    # drop reactions simultaneously from net and (by position-independent content) is not possible for twin: keep nets, simplify ops
    for idx, op in enumerate(case["ops"]):
        def repl(n: Dict[str, Any]) -> Dict[str, Any]:
            c = copy.deepcopy(case)
            c["ops"][idx] = n
            return c
        if op["op"] in ("canon", "aut"):
            if op.get("timeout") is not None:
                n = copy.deepcopy(op)
                n["timeout"] = None
                yield repl(n)
            if op.get("api") not in ("summary",):
                n = copy.deepcopy(op)
                n["api"] = "summary"
                yield repl(n)
        if op["op"] == "alloc" and op.get("pick") != "lifo":
            n = copy.deepcopy(op)
            n["pick"] = "lifo"
            yield repl(n)
    if cfg.get("persistent_objects"):
        c = copy.deepcopy(case)
        c["cfg"]["persistent_objects"] = False
        yield c
    for idx, op in enumerate(case["ops"]):
        if op.get("flags") and op["flags"][2]:
            c = copy.deepcopy(case)
            c["ops"][idx]["flags"][2] = False
            yield c
