"""Reaction-centre graph corpus (vendored JSON) + item variants + VF2 ground truth.

Trusted base for the ground truth: networkx VF2 with independent match functions
(categorical_node_match(["element","charge"]), categorical_edge_match("order")).
"""
from __future__ import annotations

import json
import os
from typing import Any, Dict, List, Optional, Tuple

import networkx as nx
from networkx.algorithms.isomorphism import GraphMatcher, categorical_node_match, categorical_edge_match

VERIF = os.path.dirname(os.path.dirname(os.path.dirname(os.path.abspath(__file__))))
_ITEMS: Optional[List[Dict[str, Any]]] = None
_NM = categorical_node_match(["element", "charge"], ["*", 0])
_EM = categorical_edge_match("order", 1)
_ISO: Dict[Tuple[str, str], bool] = {}


def items() -> List[Dict[str, Any]]:
    global _ITEMS
    if _ITEMS is None:
        with open(os.path.join(VERIF, "data", "rc_corpus.json")) as fh:
            _ITEMS = json.load(fh)["items"]
    return _ITEMS


def spec(base: int, relabel_seed: Optional[int] = None, edit: Optional[List[Any]] = None) -> Dict[str, Any]:
    return {"base": base, "relabel": relabel_seed, "edit": edit}


def _order(o: Any) -> Any:
    return tuple(o) if isinstance(o, list) else o


def build(sp: Dict[str, Any]) -> nx.Graph:
    """Materialise an item spec as a fresh nx.Graph (new object every call)."""
    import random
    it = items()[sp["base"] % len(items())]
    nodes = [list(n) for n in it["nodes"]]
    edges = [[e[0], e[1], _order(e[2])] for e in it["edges"]]
    ed = sp.get("edit")
    if ed:
        if ed[0] == "charge":
            k = ed[1] % len(nodes)
            nodes[k][2] = nodes[k][2] + 1
        elif ed[0] == "order" and edges:
            k = ed[1] % len(edges)
            o = edges[k][2]
            if isinstance(o, tuple):
                edges[k][2] = (o[0], (o[1] or 0) + 1)
            else:
                edges[k][2] = (o or 0) + 1
        elif ed[0] == "element":
            k = ed[1] % len(nodes)
            nodes[k][1] = "Si" if nodes[k][1] != "Si" else "Ge"
    rs = sp.get("relabel")
    if rs is not None:
        r = random.Random(rs)
        ids = [n[0] for n in nodes]
        new = list(range(1, len(ids) + 1))
        r.shuffle(new)
        off = r.choice([0, 10, 100])
        m = {i: j + off for i, j in zip(ids, new)}
        nodes = [[m[n[0]], n[1], n[2]] for n in nodes]
        edges = [[m[e[0]], m[e[1]], e[2]] if r.random() < 0.5 else [m[e[1]], m[e[0]], e[2]] for e in edges]
        r.shuffle(nodes)
        r.shuffle(edges)
    g = nx.Graph()
    for n, el, ch in nodes:
        g.add_node(n, element=el, charge=ch, atom_map=n)
    for u, v, o in edges:
        so = (o[0] - o[1]) if isinstance(o, tuple) else 0
        g.add_edge(u, v, order=o, standard_order=so)
    return g


def content_key(sp: Dict[str, Any]) -> str:
    """Content of the graph up to relabelling inputs (base + edit); relabel does not change the class."""
    return json.dumps([sp["base"] % len(items()), sp.get("edit")])


def invariant_attr(g: nx.Graph) -> str:
    """Isomorphism-invariant pre-grouping attribute computed by the harness (never SynKit's signature)."""
    return "|".join(sorted(f"{d.get('element')}{d.get('charge')}" for _, d in g.nodes(data=True))) + f"#{g.number_of_edges()}"


def isomorphic(sp1: Dict[str, Any], sp2: Dict[str, Any]) -> bool:
    k1, k2 = content_key(sp1), content_key(sp2)
    if k1 == k2:
        return True
    key = (k1, k2) if k1 < k2 else (k2, k1)
    got = _ISO.get(key)
    if got is None:
        a = build({"base": sp1["base"], "edit": sp1.get("edit"), "relabel": None})
        b = build({"base": sp2["base"], "edit": sp2.get("edit"), "relabel": None})
        if a.number_of_nodes() != b.number_of_nodes() or a.number_of_edges() != b.number_of_edges():
            got = False
        else:
            got = GraphMatcher(a, b, node_match=_NM, edge_match=_EM).is_isomorphic()
        _ISO[key] = got
    return got


def truth_partition(specs: List[Dict[str, Any]]) -> List[int]:
    """Class index per item (first-occurrence numbering) from VF2 ground truth."""
    reps: List[int] = []
    out: List[int] = []
    for i, sp in enumerate(specs):
        for ci, r in enumerate(reps):
            if isomorphic(specs[r], sp):
                out.append(ci)
                break
        else:
            reps.append(i)
            out.append(len(reps) - 1)
    return out


def same_partition(a: List[Any], b: List[Any]) -> bool:
    fa: Dict[Any, Any] = {}
    fb: Dict[Any, Any] = {}
    for x, y in zip(a, b):
        if fa.setdefault(x, y) != y or fb.setdefault(y, x) != x:
            return False
    return len(a) == len(b)
