"""Reaction-centre graph corpus (vendored JSON) + item variants + VF2 ground truth.

Trusted base for the ground truth: networkx VF2 with independent match functions
(categorical_node_match(["element","charge"]), categorical_edge_match("order")).
"""
from __future__ import annotations

import json
import os
from typing import Any, Dict, List, Optional, Tuple

import networkx as nx
from networkx.algorithms.isomorphism import GraphMatcher, categorical_node_match, categorical_edge_match

VERIF = os.path.dirname(os.path.dirname(os.path.dirname(os.path.abspath(__file__))))
_ITEMS: Optional[List[Dict[str, Any]]] = None
_NM = categorical_node_match(["element", "charge"], ["*", 0])
_EM = categorical_edge_match("order", 1)
_ISO: Dict[Tuple[str, str], bool] = {}


def items() -> List[Dict[str, Any]]:
    global _ITEMS
    if _ITEMS is None:
        with open(os.path.join(VERIF, "data", "rc_corpus.json")) as fh:
            _ITEMS = json.load(fh)["items"]
    return _ITEMS


def spec(base: int, relabel_seed: Optional[int] = None, edit: Optional[List[Any]] = None) -> Dict[str, Any]:
    return {"base": base, "relabel": relabel_seed, "edit": edit}


def _order(o: Any) -> Any:
    return tuple(o) if isinstance(o, list) else o


SYN = [
    # (nodes [(id, element, charge)], edges [(u, v, order)])  - plain orders, so the default order (1) / charge (0) matter
    ([(1, "C", 0), (2, "C", 0), (3, "O", 0)], [(1, 2, 1), (2, 3, 2)]),
    ([(1, "C", 0), (2, "N", 0), (3, "O", -1), (4, "C", 0)], [(1, 2, 1), (2, 3, 1), (2, 4, 1)]),
    ([(1, "C", 0), (2, "C", 0), (3, "C", 0), (4, "C", 0)], [(1, 2, 1), (2, 3, 1), (3, 4, 1), (4, 1, 1)]),
    ([(1, "O", 0), (2, "C", 1), (3, "O", -1)], [(1, 2, 2), (2, 3, 1)]),
    # topologies that separate real isomorphism from cheap invariants (all carbon unless noted)
    # 4/5: bridged bicyclics with three bridges of different lengths (cycle bases depend on traversal order)
    ([(i, "C", 0) for i in range(1, 6)] + [(6, "N", 1)], [(1, 3, 1), (3, 2, 1), (1, 4, 2), (4, 2, 1), (1, 5, 1), (5, 6, 1), (6, 2, 1)]),
    ([(i, "C", 0) for i in range(1, 9)], [(1, 3, 1), (3, 2, 1), (1, 4, 1), (4, 5, 1), (5, 2, 1), (1, 6, 1), (6, 7, 1), (7, 8, 1), (8, 2, 1)]),
    # 6/7: hexagon vs two triangles (same size, same degree sequence)
    ([(i, "C", 0) for i in range(1, 7)], [(1, 2, 1), (2, 3, 1), (3, 4, 1), (4, 5, 1), (5, 6, 1), (6, 1, 1)]),
    ([(i, "C", 0) for i in range(1, 7)], [(1, 2, 1), (2, 3, 1), (3, 1, 1), (4, 5, 1), (5, 6, 1), (6, 4, 1)]),
    # 8/9: prism vs K3,3 (both cubic on six nodes)
    ([(i, "C", 0) for i in range(1, 7)], [(1, 2, 1), (2, 3, 1), (3, 1, 1), (4, 5, 1), (5, 6, 1), (6, 4, 1), (1, 4, 1), (2, 5, 1), (3, 6, 1)]),
    ([(i, "C", 0) for i in range(1, 7)], [(1, 4, 1), (1, 5, 1), (1, 6, 1), (2, 4, 1), (2, 5, 1), (2, 6, 1), (3, 4, 1), (3, 5, 1), (3, 6, 1)]),
    # 10/11: spiro (two triangles sharing an atom) vs fused squares minus nothing (bow-tie vs house-like), same size
    ([(i, "C", 0) for i in range(1, 6)], [(1, 2, 1), (2, 3, 1), (3, 1, 1), (3, 4, 1), (4, 5, 1), (5, 3, 1)]),
    ([(i, "C", 0) for i in range(1, 6)], [(1, 2, 1), (2, 3, 1), (3, 4, 1), (4, 1, 1), (1, 3, 1), (4, 5, 1)]),
    # 12/13: same ring, the double bond / the charge at another position relative to the hetero atom
    ([(1, "O", 0)] + [(i, "C", 0) for i in range(2, 7)], [(1, 2, 1), (2, 3, 2), (3, 4, 1), (4, 5, 1), (5, 6, 1), (6, 1, 1)]),
    ([(1, "O", 0)] + [(i, "C", 0) for i in range(2, 7)], [(1, 2, 1), (2, 3, 1), (3, 4, 2), (4, 5, 1), (5, 6, 1), (6, 1, 1)]),
]
SYN_FAMILIES = [[0], [1], [2], [3], [4], [5], [4, 5], [6, 7], [8, 9], [10, 11], [12, 13]]


def _base_graph(b: Any) -> nx.Graph:
    if isinstance(b, str) and b.startswith("syn"):
        nodes, edges = SYN[int(b[3:]) % len(SYN)]
        g = nx.Graph()
        for n, el, ch in nodes:
            g.add_node(n, element=el, charge=ch, atom_map=n)
        for u, v, o in edges:
            g.add_edge(u, v, order=o, standard_order=0)
        return g
    it = items()[b % len(items())]
    g = nx.Graph()
    for n, el, ch in it["nodes"]:
        g.add_node(n, element=el, charge=ch, atom_map=n)
    for u, v, o in it["edges"]:
        o = _order(o)
        so = (o[0] - o[1]) if isinstance(o, tuple) else 0
        g.add_edge(u, v, order=o, standard_order=so)
    return g


def build(sp: Dict[str, Any]) -> nx.Graph:
    """Materialise an item spec as a fresh nx.Graph (new object every call):
    corpus graph -> optional one-edit -> optional relabelling with shuffled insertion order."""
    import random
    if sp["base"] == "empty":
        return nx.Graph()                 # a reaction centre without atoms (nothing changes in the reaction)
    g = _base_graph(sp["base"])
    if sp.get("edit"):
        apply_edit_inplace(g, sp["edit"])
    if sp.get("omit_defaults"):
        # the same graph, written without the attributes that equal the documented defaults (charge 0, order 1)
        for _, d in g.nodes(data=True):
            if d.get("charge") == 0:
                d.pop("charge", None)
        for _, _, d in g.edges(data=True):
            if d.get("order") == 1:
                d.pop("order", None)
    rs = sp.get("relabel")
    if rs is None:
        return g
    r = random.Random(rs)
    ids = sorted(g.nodes())
    new = list(range(1, len(ids) + 1))
    r.shuffle(new)
    off = r.choice([0, 10, 100])
    m = {i: j + off for i, j in zip(ids, new)}
    as_float = r.random() < 0.2   # charges written as floats: 0.0 == 0, the class must not change
    nodes = [(m[n], dict(d, atom_map=m[n], charge=(float(d.get("charge", 0)) if as_float else d.get("charge", 0))))
             for n, d in g.nodes(data=True)]
    edges = [((m[u], m[v]) if r.random() < 0.5 else (m[v], m[u])) + (dict(d),) for u, v, d in g.edges(data=True)]
    r.shuffle(nodes)
    r.shuffle(edges)
    h = nx.Graph()
    for n, d in nodes:
        h.add_node(n, **d)
    for u, v, d in edges:
        h.add_edge(u, v, **d)
    return h


def content_key(sp: Dict[str, Any]) -> str:
    """Content of the graph up to relabelling inputs (base + edit); relabel does not change the class."""
    if sp["base"] == "empty":
        return json.dumps(["empty", None])
    if isinstance(sp["base"], str):
        return json.dumps([sp["base"], sp.get("edit")])
    return json.dumps([sp["base"] % len(items()), sp.get("edit")])


def invariant_attr(g: nx.Graph) -> str:
    """Isomorphism-invariant pre-grouping attribute computed by the harness (never SynKit's signature)."""
    return "|".join(sorted(f"{d.get('element', '*')}{int(d.get('charge', 0))}" for _, d in g.nodes(data=True))) + f"#{g.number_of_edges()}"


def invariant_attr_kind(g: nx.Graph, kind: str) -> Any:
    """Isomorphism-invariant pre-grouping attributes of several Python types (all computed by the harness)."""
    if kind == "str":
        return invariant_attr(g)
    if kind == "deg_desc":                      # a list that is NOT in ascending order
        return sorted((d for _, d in g.degree()), reverse=True)
    if kind == "size_pair":
        return [g.number_of_nodes(), g.number_of_edges()]
    if kind == "int":
        return g.number_of_nodes() * 100 + g.number_of_edges()
    raise ValueError(kind)


def isomorphic(sp1: Dict[str, Any], sp2: Dict[str, Any]) -> bool:
    k1, k2 = content_key(sp1), content_key(sp2)
    if k1 == k2:
        return True
    key = (k1, k2) if k1 < k2 else (k2, k1)
    got = _ISO.get(key)
    if got is None:
        if "empty" in (sp1["base"], sp2["base"]):
            _ISO[key] = False            # (both empty is the k1 == k2 case above)
            return False
        a = build({"base": sp1["base"], "edit": sp1.get("edit"), "relabel": None})
        b = build({"base": sp2["base"], "edit": sp2.get("edit"), "relabel": None})
        if a.number_of_nodes() != b.number_of_nodes() or a.number_of_edges() != b.number_of_edges():
            got = False
        else:
            got = GraphMatcher(a, b, node_match=_NM, edge_match=_EM).is_isomorphic()
        _ISO[key] = got
    return got


def truth_partition(specs: List[Dict[str, Any]]) -> List[int]:
    """Class index per item (first-occurrence numbering) from VF2 ground truth."""
    reps: List[int] = []
    out: List[int] = []
    for i, sp in enumerate(specs):
        for ci, r in enumerate(reps):
            if isomorphic(specs[r], sp):
                out.append(ci)
                break
        else:
            reps.append(i)
            out.append(len(reps) - 1)
    return out


def same_partition(a: List[Any], b: List[Any]) -> bool:
    fa: Dict[Any, Any] = {}
    fb: Dict[Any, Any] = {}
    for x, y in zip(a, b):
        if fa.setdefault(x, y) != y or fb.setdefault(y, x) != x:
            return False
    return len(a) == len(b)


def apply_edit_inplace(g: nx.Graph, ed: List[Any]) -> None:
    """Apply the same edit build() applies, to a graph whose node ids are the corpus ids (un-relabelled)."""
    nodes = sorted(g.nodes())
    edges = sorted((min(u, v), max(u, v)) for u, v in g.edges())
    if ed[0] == "charge_set":
        n = nodes[ed[1] % len(nodes)]
        g.nodes[n]["charge"] = ed[2]
    elif ed[0] == "charge":
        n = nodes[ed[1] % len(nodes)]
        g.nodes[n]["charge"] = g.nodes[n].get("charge", 0) + 1
    elif ed[0] == "order" and edges:
        u, v = edges[ed[1] % len(edges)]
        o = g[u][v].get("order", 1)          # an absent order is the documented default 1
        if isinstance(o, tuple):
            o = (o[0], (o[1] or 0) + 1)
            g[u][v]["standard_order"] = o[0] - o[1]
        else:
            o = (o or 0) + 1
        g[u][v]["order"] = o
    elif ed[0] == "element":
        n = nodes[ed[1] % len(nodes)]
        g.nodes[n]["element"] = "Si" if g.nodes[n].get("element") != "Si" else "Ge"
