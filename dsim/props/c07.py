"""C07 — isomorphism verdicts and embeddings are correct; pre-filters never change them;
no answer depends on the history of earlier queries on the same graph objects.

Real code: synkit.Graph.Matcher.graph_matcher.GraphMatcherEngine (incl. the process-wide
weak WL cache), subgraph_matcher.SubgraphMatch / SubgraphSearchEngine, graph_morphism.*.
Simulator-owned: the history of queries by several logical clients (engines with different
attribute selections) on shared graph objects, object lifetime (drop) and cyclic-GC timing.
"""
from __future__ import annotations

import copy
import gc
import pickle
from typing import Any, Dict, Iterable, List, Optional, Tuple

import networkx as nx

from synkit.Graph.Matcher.graph_matcher import GraphMatcherEngine
from synkit.Graph.Matcher.subgraph_matcher import SubgraphMatch, SubgraphSearchEngine
import synkit.Graph.Matcher.graph_morphism as gmorph

from ..kernel import Sim, Violation, rng_for, derive
from ..seams import GCControl, Seams
from ..executor import World
from . import graphref as gr

PROP = "C07"
TIERS = {
    "quick": {"runs": 40000, "wall": 75, "chunk": 150},
    "thorough": {"runs": 1200000, "wall": 840, "chunk": 400},
}
STEP_CAP = 500000
SHRINK_BUDGET = 300
FAULT_OPS = ("gc", "drop_graph", "alloc", "flood")
PROBES = ["caller_supplied_comparator", "cache_entry_read_by_engine_with_other_attrs", "weak_entry_purged_by_gc", "proper_subgraph_query",
          "filter_on_off_pair", "one_edit_neighbour_pair", "relabelled_pair", "hcount_asymmetric_pair",
          "contained_and_mapped", "engine_shares_graph_with_other_engine", "call_relying_on_signature_defaults", "multi_component_pattern", "graph_derived_from_queried_object",
          "caller_list_mutated_between_calls", "planted_pattern_in_large_host", "label_flood"]
REAL = ["synkit.Graph.Matcher.graph_matcher.GraphMatcherEngine.isomorphic / get_mappings / _pre_check / _wl_hash_cached (class-level weak cache)",
        "synkit.Graph.Matcher.subgraph_matcher.SubgraphMatch.subgraph_isomorphism / is_subgraph",
        "synkit.Graph.Matcher.subgraph_matcher.SubgraphSearchEngine.find_subgraph_mappings (_quick_pre_filter on/off)",
        "synkit.Graph.Matcher.graph_morphism.graph_isomorphism / find_graph_isomorphism (fast_invariant_check on/off) / subgraph_isomorphism", "networkx VF2"]
STUB = ["cyclic GC trigger (gc.disable + scheduled gc.collect): decides when dropped graphs leave the weak cache"]
ASSUMPTIONS = [
    "reference = plain backtracking enumeration of bijections / injections on <= 6 nodes (dsim/props/graphref.py), independent of VF2",
    "isomorphic(a, b): where the statement leaves the hcount direction open both directions are accepted; with equal or absent hcount the verdict is forced and must be symmetric",
    "get_mappings(host, pattern): a returned map must be an injective label- and bond-preserving pattern->host map with host hcount >= pattern hcount; at least one is required whenever an induced embedding exists; [] is required when not even a monomorphism exists",
    "graphs are never mutated in place (declared unsupported by the library); edited graphs are new objects",
]
RULE = ("per run a pool of small labelled graph objects (1-6 nodes, elements {C,O}, charge {0,1}, bond order {1,2}, hcount "
        "absent/0/1: random graphs, relabelled copies, one-edit neighbours, sub-graphs) shared by several GraphMatcherEngine "
        "instances with different node_attrs / edge_attrs / wl1_filter / max_mappings and by the stateless helpers; op list of "
        "new_graph / drop_graph / gc / new_engine / q_iso / q_map / q_sub / q_giso / q_find. Every query is evaluated (a) on "
        "the shared objects with their history, (b) on pristine deep copies with a fresh engine, (c) by the reference; "
        "filter on/off pairs are evaluated side by side. Widened after eight seeded rounds: graphs derived from queried objects (copy, "
        "deepcopy, pickle, relabel_nodes, views), caller-owned argument lists edited in place, calling conventions incl. signature defaults, "
        "order alphabets {1,2} / {1,1.5,2} / {1.2,1.33,1.4,1.5} / (before, after) pairs, rare self-loops (clean refusal accepted), "
        "patterns planted in 10-18 node hosts, floods of >4000 distinct labels through one engine. Non-trivial = >=1 fault (gc/drop) fired and >=1 probe hit")

ELEMENTS = ["C", "O"]


# ---------------------------------------------------------------------------
# graph specs
# ---------------------------------------------------------------------------


def rand_spec(rng, n: Optional[int] = None) -> Dict[str, Any]:
    n = n or rng.choice([1, 2, 3, 3, 4, 4, 5, 6])
    hmode = rng.choice(["none", "none", "all", "some"])
    nodes = []
    no_charge = rng.random() < 0.15  # charge attribute absent on every node of this graph (defaults apply)
    for i in range(n):
        h = None
        if hmode == "all" or (hmode == "some" and rng.random() < 0.5):
            h = rng.choice([0, 1])
        nodes.append([i + 1, rng.choice(ELEMENTS), None if no_charge else rng.choice([0, 0, 0, 1]), h])
    edges = []
    p = rng.choice([0.3, 0.5, 0.7])
    no_order = rng.random() < 0.12   # some edges without an 'order' attribute (helpers with defaults read it as 1)
    # bond orders are not always 1/2: aromatic 1.5, fractional orders from resonance averaging, (before, after) pairs of ITS graphs
    alphabet = rng.choice([[1, 1, 2]] * 8 + [[1, 1.5, 2], [1.2, 1.33, 1.4, 1.5], [[1, 2], [2, 1], [1, 1]]])
    for i in range(n):
        for j in range(i + 1, n):
            if rng.random() < p:
                edges.append([i + 1, j + 1, (None if (no_order and rng.random() < 0.5) else rng.choice(alphabet))])
    if rng.random() < 0.03:
        i = rng.randint(1, n)
        edges.append([i, i, rng.choice(alphabet)])       # a self-loop: unusual, legal for the generic matchers
    return {"nodes": nodes, "edges": edges}


def relabel_spec(sp: Dict[str, Any], rng) -> Dict[str, Any]:
    ids = [n[0] for n in sp["nodes"]]
    new = list(range(1, len(ids) + 1))
    rng.shuffle(new)
    off = rng.choice([0, 0, 7, 20])
    if rng.random() < 0.25:
        m = {a: "n%d" % (b + off) for a, b in zip(ids, new)}   # node ids need not be integers
    else:
        m = {a: b + off for a, b in zip(ids, new)}
    nodes = [[m[n[0]], n[1], n[2], n[3]] for n in sp["nodes"]]
    edges = [[m[e[0]], m[e[1]], e[2]] if rng.random() < 0.5 else [m[e[1]], m[e[0]], e[2]] for e in sp["edges"]]
    rng.shuffle(nodes)
    rng.shuffle(edges)
    return {"nodes": nodes, "edges": edges, "_map": m}


def edit_spec(sp: Dict[str, Any], rng) -> Dict[str, Any]:
    sp = copy.deepcopy(sp)
    c = rng.random()
    if c < 0.25:
        n = rng.choice(sp["nodes"])
        if n[2] is None:
            for m in sp["nodes"]:
                m[2] = 0
        else:
            n[2] = 1 - n[2]
    elif c < 0.45:
        n = rng.choice(sp["nodes"])
        n[1] = "O" if n[1] == "C" else "C"
    elif c < 0.6 and sp["edges"]:
        e = rng.choice(sp["edges"])
        e[2] = 1 if e[2] == 2 else 2
    elif c < 0.75 and sp["edges"]:
        sp["edges"].remove(rng.choice(sp["edges"]))
    elif c < 0.9:
        n = rng.choice(sp["nodes"])
        n[3] = (1 if n[3] in (None, 0) else 0)
    else:
        ids = [n[0] for n in sp["nodes"]]
        if len(ids) >= 2:
            a, b = rng.sample(ids, 2)
            if not any({e[0], e[1]} == {a, b} for e in sp["edges"]):
                sp["edges"].append([a, b, 1])
    return sp


def sub_spec(sp: Dict[str, Any], rng) -> Dict[str, Any]:
    """A (not necessarily induced) sub-graph of sp on a subset of its nodes."""
    ids = [n[0] for n in sp["nodes"]]
    k = rng.randint(1, max(1, len(ids) - 1)) if len(ids) > 1 else 1
    keep = set(rng.sample(ids, k))
    nodes = [list(n) for n in sp["nodes"] if n[0] in keep]
    edges = [list(e) for e in sp["edges"] if e[0] in keep and e[1] in keep]
    if edges and rng.random() < 0.3:
        edges.remove(rng.choice(edges))
    return {"nodes": nodes, "edges": edges}


def build(sp: Dict[str, Any]) -> nx.Graph:
    g = nx.Graph()
    for n, el, ch, h in sp["nodes"]:
        d = {"element": el}
        if ch is not None:
            d["charge"] = ch
        if h is not None:
            d["hcount"] = h
        g.add_node(n, **d)
    for u, v, o in sp["edges"]:
        if o is None:
            g.add_edge(u, v)
        else:
            g.add_edge(u, v, order=(tuple(o) if isinstance(o, list) else o))
    return g


def morph_inplace(g: nx.Graph, sp: Dict[str, Any]) -> None:
    """Turn a graph object the caller obtained by copying / relabelling an earlier one into the graph `sp` describes
    (graph-level attributes travel with the copy, as they do for any user who copies a graph and edits the copy)."""
    want = {n[0] for n in sp["nodes"]}
    g.remove_nodes_from([n for n in list(g.nodes) if n not in want])
    for n, el, ch, h in sp["nodes"]:
        g.add_node(n)
        g.nodes[n].clear()
        g.nodes[n]["element"] = el
        if ch is not None:
            g.nodes[n]["charge"] = ch
        if h is not None:
            g.nodes[n]["hcount"] = h
    g.remove_edges_from(list(g.edges))
    for u, v, o in sp["edges"]:
        if o is None:
            g.add_edge(u, v)
        else:
            g.add_edge(u, v, order=(tuple(o) if isinstance(o, list) else o))


def snapshot(g: nx.Graph) -> Any:
    return (sorted((n, sorted(d.items())) for n, d in g.nodes(data=True)),
            sorted((min(u, v, key=str), max(u, v, key=str), sorted(d.items())) for u, v, d in g.edges(data=True)))


# ---------------------------------------------------------------------------
# generation
# ---------------------------------------------------------------------------

ENGINE_CFGS = [
    {"node_attrs": ["element", "charge"], "edge_attrs": ["order"], "wl1": True, "max_mappings": 1},
    {"node_attrs": ["element"], "edge_attrs": ["order"], "wl1": True, "max_mappings": None},
    {"node_attrs": ["element"], "edge_attrs": [], "wl1": True, "max_mappings": 3},
    {"node_attrs": ["element", "charge"], "edge_attrs": ["order"], "wl1": False, "max_mappings": None},
    {"node_attrs": [], "edge_attrs": [], "wl1": True, "max_mappings": 1},
    {"node_attrs": ["charge"], "edge_attrs": ["order"], "wl1": True, "max_mappings": None},
    {"node_attrs": ["charge", "element"], "edge_attrs": ["order"], "wl1": True, "max_mappings": None},
    {"node_attrs": ["charge", "element"], "edge_attrs": [], "wl1": True, "max_mappings": 1},
    {"node_attrs": ["element", "charge"], "edge_attrs": [], "wl1": True, "max_mappings": 2},
]


def generate(seed: int, tier: str = "quick") -> Dict[str, Any]:
    rng = rng_for(seed, "c07", "gen")
    ops: List[Dict[str, Any]] = []
    k = 0

    def s() -> int:
        nonlocal k
        k += 1
        return derive(seed, "op", k)

    n_graphs = rng.randint(2, 5)
    base = rand_spec(rng)
    ops.append({"op": "new_graph", "s": s(), "spec": base})
    for _ in range(n_graphs - 1):
        c = rng.random()
        if c < 0.3:
            ops.append({"op": "new_graph", "s": s(), "spec": rand_spec(rng)})
        elif c < 0.55:
            ops.append({"op": "derive", "s": s(), "kind": "relabel", "src": rng.randrange(8)})
        elif c < 0.8:
            ops.append({"op": "derive", "s": s(), "kind": "edit", "src": rng.randrange(8)})
        else:
            ops.append({"op": "derive", "s": s(), "kind": "sub", "src": rng.randrange(8)})
    n_eng = rng.randint(1, 3)
    for _ in range(n_eng):
        ops.append({"op": "new_engine", "s": s(), "cfg": rng.randrange(len(ENGINE_CFGS))})
    faulty = rng.random() < 0.7
    if faulty and rng.random() < 0.6:
        ops.append({"op": "alloc", "s": s(), "p_reuse": rng.choice([0.3, 0.6, 1.0, 1.0]),
                    "pick": rng.choice(["lifo", "fifo", "rand"]), "gc_p": rng.choice([0.05, 0.3, 0.6])})
    deep = tier == "thorough" and rng.random() < 0.4
    for _ in range(rng.randint(20, 60) if deep else rng.randint(4, 24)):
        c = rng.random()
        if faulty and c < 0.08:
            ops.append({"op": "gc", "s": s()})
        elif faulty and c < 0.14:
            ops.append({"op": "drop_graph", "s": s(), "k": rng.randrange(8)})
        elif c < 0.2:
            ops.append({"op": "derive", "s": s(), "kind": rng.choice(["relabel", "edit", "sub"]), "src": rng.randrange(8)})
            if rng.random() < 0.12:
                # sizes a brute-force reference cannot afford: the pattern is planted, so containment is known by construction
                ops.append({"op": "q_big", "s": s(), "n": rng.randint(10, 18), "k": rng.randint(2, 4),
                            "shape": rng.choice(["path", "tree", "ring_tail"])})
            if rng.random() < 0.004:
                # a long-running process has seen thousands of distinct labels
                ops.append({"op": "flood", "s": s(), "n": 4400})
        elif c < 0.24:
            ops.append({"op": "new_engine", "s": s(), "cfg": rng.randrange(len(ENGINE_CFGS))})
        elif c < 0.5:
            ops.append({"op": "q_iso", "s": s(), "engine": rng.randrange(4), "i": rng.randrange(8), "j": rng.randrange(8)})
        elif c < 0.68:
            ops.append({"op": "q_map", "s": s(), "engine": rng.randrange(4), "host": rng.randrange(8), "pattern": rng.randrange(8)})
        elif c < 0.84:
            ops.append({"op": "q_sub", "s": s(), "child": rng.randrange(8), "parent": rng.randrange(8),
                        "check_type": rng.choice(["induced", "monomorphism"]),
                        "api": rng.choice(["SubgraphMatch.subgraph_isomorphism", "SubgraphMatch.is_subgraph", "graph_morphism.subgraph_isomorphism"]),
                        "labels": rng.choice([["element", "charge"], ["element"]]),
                        "style": rng.choice(["explicit", "explicit", "defaults", "names_only", "bare"]),
                        "cmp": rng.choice([None, None, None, "node", "edge", "both"])})
        elif c < 0.92:
            ops.append({"op": "q_giso", "s": s(), "i": rng.randrange(8), "j": rng.randrange(8)})
        else:
            ops.append({"op": "q_find", "s": s(), "host": rng.randrange(8), "pattern": rng.randrange(8),
                        "strategy": rng.choice(["all", "comp", "bt"]), "node_attrs": rng.choice([["element", "charge"], ["element"]])})
    return {"cfg": {}, "ops": ops}


# ---------------------------------------------------------------------------
# reference helpers
# ---------------------------------------------------------------------------


def ref_graph(g: nx.Graph, node_attrs: Iterable[str], edge_attrs: Iterable[str], defaults: Optional[Dict[str, Any]] = None,
              edge_default: Any = None) -> gr.G:
    na, ea = tuple(node_attrs), tuple(edge_attrs)
    dflt = defaults or {}
    return gr.from_nx(g,
                      lambda d: (tuple(d.get(a, dflt.get(a)) for a in na), d.get("hcount", 0)),
                      lambda d: tuple(d.get(a, edge_default) for a in ea))


def _eq_labels(pk: Any, hk: Any) -> bool:
    return pk[0] == hk[0]


def _host_ge(pk: Any, hk: Any) -> bool:
    return pk[0] == hk[0] and hk[1] >= pk[1]


def _pat_ge(pk: Any, hk: Any) -> bool:
    return pk[0] == hk[0] and pk[1] >= hk[1]


# ---------------------------------------------------------------------------
# execution
# ---------------------------------------------------------------------------


def execute(case: Dict[str, Any], sim: Sim) -> None:
    world = World(sim)
    seams = Seams()
    with GCControl():
        saved = GraphMatcherEngine.__dict__.get("_wl_cache")
        seams.install(id_fn=world.id_fn())
        try:
            if saved is not None:
                GraphMatcherEngine._wl_cache = type(saved)()
            _run(case, sim, world)
        finally:
            seams.uninstall()
            if saved is not None:
                GraphMatcherEngine._wl_cache = saved


def _run(case: Dict[str, Any], sim: Sim, world: World) -> None:
    na_shared: List[str] = []            # ONE caller-owned list object per argument, edited in place between calls
    ea_shared: List[str] = []
    lb_shared: List[str] = []
    df_shared: List[Any] = []
    pool: List[Dict[str, Any]] = []      # {"spec","g","snap","touched": set of node_attr tuples, "kind"}
    engines: List[Dict[str, Any]] = []

    def add_graph(sp: Dict[str, Any], kind: str, src: Optional[int] = None, obj: Optional[nx.Graph] = None) -> None:
        if not sp["nodes"]:
            return
        sp = {k_: v_ for k_, v_ in sp.items() if not k_.startswith("_")}
        g = obj if obj is not None else build(sp)
        pool.append({"spec": sp, "g": g, "snap": snapshot(g), "touched": set(), "kind": kind, "src": src, "engines": set()})
        sim.event("graph", {"kind": kind, "n": len(sp["nodes"]), "m": len(sp["edges"])})

    def pick(i: int) -> Dict[str, Any]:
        ent = pool[i % len(pool)]
        if nx.number_of_selfloops(ent["g"]):
            sim.exotic = "self_loop"      # unusual input: a clean refusal (ValueError/TypeError) is accepted, a wrong answer is not
            sim.probe("graph_with_self_loop_queried")
        return ent

    def eng(i: int) -> Dict[str, Any]:
        if not engines:
            new_engine(0)
        return engines[i % len(engines)]

    def new_engine(ci: int) -> None:
        c = ENGINE_CFGS[ci % len(ENGINE_CFGS)]
        e = GraphMatcherEngine(node_attrs=list(c["node_attrs"]), edge_attrs=list(c["edge_attrs"]),
                               wl1_filter=c["wl1"], max_mappings=c["max_mappings"])
        engines.append({"e": e, "cfg": c, "id": len(engines)})
        sim.event("engine", c)

    def fresh_engine(c: Dict[str, Any]) -> GraphMatcherEngine:
        return GraphMatcherEngine(node_attrs=list(c["node_attrs"]), edge_attrs=list(c["edge_attrs"]),
                                  wl1_filter=c["wl1"], max_mappings=c["max_mappings"])

    def note_pair(a: Dict[str, Any], b: Dict[str, Any]) -> None:
        for x, y in ((a, b), (b, a)):
            if x["kind"] == "edit" and x["src"] is not None and x["src"] is y["g"]:
                sim.probe("one_edit_neighbour_pair")
            if x["kind"] == "relabel" and x["src"] is not None and x["src"] is y["g"]:
                sim.probe("relabelled_pair")

    def touch(E: Dict[str, Any], host: Dict[str, Any], pattern: Dict[str, Any]) -> str:
        """Bookkeeping for the history probes; returns the condition string for signatures.
        The shared cache keeps what the FIRST filtering engine computed for a graph object."""
        cond = "no earlier query with other node_attrs"
        size_ok = (host["g"].number_of_nodes() >= pattern["g"].number_of_nodes()
                   and host["g"].number_of_edges() >= pattern["g"].number_of_edges())
        if E["cfg"]["wl1"] and size_ok:
            key = tuple(E["cfg"]["node_attrs"])
            for it in (host, pattern):
                if it.get("first_attrs") is None:
                    it["first_attrs"] = key
                elif it["first_attrs"] != key:
                    sim.probe("cache_entry_read_by_engine_with_other_attrs")
                    cond = "graph earlier queried by an engine with other node_attrs"
        for it in (host, pattern):
            if it["engines"] and E["id"] not in it["engines"]:
                sim.probe("engine_shares_graph_with_other_engine")
            it["engines"].add(E["id"])
        return cond

    def check_unmutated(site: str) -> None:
        for it in pool:
            if snapshot(it["g"]) != it["snap"]:
                raise Violation(PROP, site, "input_graph_mutated", "", {"before": it["snap"], "after": snapshot(it["g"])})

    for op in case["ops"]:
        sim.step()
        sim.exotic = None
        k = op["op"]
        world.reseed(op.get("s", 0))
        rng = rng_for(op.get("s", 0), "c07op")
        if k == "new_graph":
            add_graph(op["spec"], "rand")
            continue
        if k == "derive":
            if not pool:
                continue
            src = pick(op["src"])
            by_object = rng.random() < 0.5     # the caller derives the new graph from the OBJECT it already holds
            obj = None
            if op["kind"] == "relabel":
                nsp = relabel_spec(src["spec"], rng)
                if by_object:
                    obj = nx.relabel_nodes(src["g"], nsp["_map"], copy=True)
                    morph_inplace(obj, nsp)
                add_graph(nsp, "relabel", src["g"], obj)
            elif op["kind"] == "edit":
                nsp = edit_spec(src["spec"], rng)
                if by_object:
                    how = rng.choice(["copy", "deepcopy", "pickle"])
                    if nx.is_frozen(src["g"]):
                        how = "copy"                          # deep copies of a view are views again (read-only)
                    obj = src["g"].copy() if how == "copy" else (copy.deepcopy(src["g"]) if how == "deepcopy"
                                                               else pickle.loads(pickle.dumps(src["g"])))
                    morph_inplace(obj, nsp)
                add_graph(nsp, "edit", src["g"], obj)
            else:
                nsp = sub_spec(src["spec"], rng)
                if by_object:
                    keep = [n[0] for n in nsp["nodes"]]
                    view = src["g"].subgraph(keep)
                    if snapshot(view) == snapshot(build(nsp)) and rng.random() < 0.6:
                        obj = view                           # a read-only view shares the parent's graph-level dict
                    else:
                        obj = view.copy()
                        morph_inplace(obj, nsp)
                add_graph(nsp, "sub", src["g"], obj)
            if obj is not None:
                sim.probe("graph_derived_from_queried_object")
            continue
        if k == "new_engine":
            new_engine(op["cfg"])
            continue
        if k == "flood":
            ef = GraphMatcherEngine(node_attrs=["tag"], edge_attrs=[], wl1_filter=True, max_mappings=1)
            left, t_ = op["n"], 0
            while left > 0:
                m_ = min(150, left)
                gf = nx.path_graph(m_)
                for n_ in gf.nodes:
                    gf.nodes[n_]["tag"] = "t%d" % t_
                    t_ += 1
                if not ef.isomorphic(gf, gf):
                    raise Violation(PROP, "GraphMatcherEngine.isomorphic", "verdict_wrong", "graph vs itself", {"nodes": m_})
                left -= m_
            sim.fault("flood")
            sim.probe("label_flood")
            sim.event("flood", op["n"])
            continue
        if k == "q_big":
            r_ = rng_for(op.get("s", 0), "big")
            n_ = op["n"]
            host = nx.Graph()
            for i_ in range(1, n_ + 1):
                host.add_node(i_, element=r_.choice(ELEMENTS), charge=r_.choice([0, 0, 0, 1]))
            for i_ in range(2, n_ + 1):
                j_ = i_ - 1 if op["shape"] != "tree" else r_.randint(max(1, i_ - 3), i_ - 1)
                host.add_edge(j_, i_, order=r_.choice([1, 1, 2]))
            if op["shape"] == "ring_tail" and n_ >= 6:
                host.add_edge(1, 5, order=1)
            start = r_.randint(1, n_)
            keep = [start]
            frontier = [start]
            while len(keep) < op["k"] and frontier:
                x = frontier.pop(0)
                for y in sorted(host.neighbors(x)):
                    if y not in keep and len(keep) < op["k"]:
                        keep.append(y)
                        frontier.append(y)
            off = r_.choice([0, 100])
            mp_ = {x: (i_ + 1 + off) for i_, x in enumerate(keep)}
            pattern = nx.relabel_nodes(host.subgraph(keep).copy(), mp_, copy=True)
            rh = ref_graph(host, ["element", "charge"], ["order"])
            rp = ref_graph(pattern, ["element", "charge"], ["order"])
            sim.probe("planted_pattern_in_large_host")
            for strat in ("all", "comp", "bt"):
                ms = SubgraphSearchEngine.find_subgraph_mappings(host, pattern, node_attrs=["element", "charge"], edge_attrs=["order"],
                                                                 strategy=strat, strict_cc_count=False)
                if not ms:
                    raise Violation(PROP, "SubgraphSearchEngine.find_subgraph_mappings", "no_embedding_although_contained",
                                    "strategy=%s, large host" % strat, {"shape": op["shape"], "k": len(keep), "seed": op.get("s")})
                for m in ms[:50]:
                    if not gr.is_valid_map(rp, rh, dict(m), mode="mono", node_ok=_host_ge):
                        raise Violation(PROP, "SubgraphSearchEngine.find_subgraph_mappings", "embedding_invalid", "large host", {"strategy": strat})
            for wl1 in (False, True):
                eg = GraphMatcherEngine(node_attrs=["element", "charge"], edge_attrs=["order"], wl1_filter=wl1, max_mappings=2)
                ms = eg.get_mappings(host, pattern)
                if not ms:
                    raise Violation(PROP, "GraphMatcherEngine.get_mappings", "no_embedding_although_contained",
                                    "pattern smaller than host, wl1_filter=%s, large host" % wl1, {"shape": op["shape"], "k": len(keep)})
                for m in ms:
                    if not gr.is_valid_map(rp, rh, dict(m), mode="mono", node_ok=_host_ge):
                        raise Violation(PROP, "GraphMatcherEngine.get_mappings", "embedding_invalid", "large host", {})
            for filt in (False, True):
                for ct in ("induced", "monomorphism"):
                    if not SubgraphMatch.subgraph_isomorphism(pattern, host, use_filter=filt, check_type=ct):
                        raise Violation(PROP, "SubgraphMatch.subgraph_isomorphism", "verdict_wrong", "use_filter=%s, %s, large host" % (filt, ct), {})
            sim.state(("big", op["shape"], min(n_, 12), len(keep)))
            sim.event("q_big", {"n": n_, "k": len(keep)})
            continue
        if k == "alloc":
            world.set_alloc_policy(op["p_reuse"], op["pick"], op["gc_p"])
            sim.event("alloc", [op["p_reuse"], op["pick"], op["gc_p"]])
            continue
        if k == "gc":
            before = len(getattr(GraphMatcherEngine, "_wl_cache", ()) or ())
            world.main_alloc.collect()
            after = len(getattr(GraphMatcherEngine, "_wl_cache", ()) or ())
            if after < before:
                sim.probe("weak_entry_purged_by_gc")
            sim.event("gc", None)
            continue
        if k == "drop_graph":
            if len(pool) > 1:
                it = pool.pop(op["k"] % len(pool))
                for o in pool:
                    if o["src"] is it["g"]:
                        o["src"] = None
                del it
                sim.fault("drop_graph")
            sim.event("drop", len(pool))
            continue
        if not pool:
            continue
        # ------------------------------------------------------------- queries
        if k == "q_iso":
            E = eng(op["engine"])
            a, b = pick(op["i"]), pick(op["j"])
            big, small = (a, b) if a["g"].number_of_nodes() >= b["g"].number_of_nodes() else (b, a)
            cond = touch(E, big, small)
            note_pair(a, b)
            site = "GraphMatcherEngine.isomorphic"
            got = bool(E["e"].isomorphic(a["g"], b["g"]))
            pristine = bool(fresh_engine(E["cfg"]).isomorphic(copy.deepcopy(a["g"]), copy.deepcopy(b["g"])))
            c = E["cfg"]
            ra, rb = ref_graph(a["g"], c["node_attrs"], c["edge_attrs"]), ref_graph(b["g"], c["node_attrs"], c["edge_attrs"])
            r1 = gr.exists(ra, rb, mode="iso", node_ok=_pat_ge)   # hcount(a) >= hcount(b)
            r2 = gr.exists(ra, rb, mode="iso", node_ok=_host_ge)  # hcount(b) >= hcount(a)
            if r1 != r2:
                sim.probe("hcount_asymmetric_pair")
            if got != pristine:
                raise Violation(PROP, site, "answer_depends_on_history", cond,
                                {"with_history": got, "pristine": pristine, "engine": c, "a": a["spec"], "b": b["spec"]})
            sib = bool(fresh_engine(dict(c, wl1=not c["wl1"])).isomorphic(a["g"], b["g"]))
            sim.probe("filter_on_off_pair")
            if sib != got:
                raise Violation(PROP, site, "filter_changes_verdict", "wl1_filter",
                                {"wl1_%s" % c["wl1"]: got, "wl1_%s" % (not c["wl1"]): sib, "engine": c, "a": a["spec"], "b": b["spec"]})
            if got not in (r1, r2):
                raise Violation(PROP, site, "verdict_wrong", "wl1_filter=%s" % c["wl1"],
                                {"got": got, "reference": [r1, r2], "engine": c, "a": a["spec"], "b": b["spec"]})
            if r1 == r2:
                back = bool(E["e"].isomorphic(b["g"], a["g"]))
                if back != got:
                    raise Violation(PROP, site, "verdict_not_symmetric", "equal or absent hcount",
                                    {"ab": got, "ba": back, "engine": c, "a": a["spec"], "b": b["spec"]})
            sim.state(("iso", tuple(c["node_attrs"]), c["wl1"], got, len(a["spec"]["nodes"]), len(b["spec"]["nodes"])))
            sim.event("q_iso", {"e": E["id"], "got": got})
        elif k == "q_map":
            E = eng(op["engine"])
            h, p = pick(op["host"]), pick(op["pattern"])
            cond = touch(E, h, p)
            note_pair(h, p)
            site = "GraphMatcherEngine.get_mappings"
            c = E["cfg"]
            got = E["e"].get_mappings(h["g"], p["g"])
            pristine = fresh_engine(c).get_mappings(copy.deepcopy(h["g"]), copy.deepcopy(p["g"]))
            rh, rp = ref_graph(h["g"], c["node_attrs"], c["edge_attrs"]), ref_graph(p["g"], c["node_attrs"], c["edge_attrs"])
            if len(p["spec"]["nodes"]) < len(h["spec"]["nodes"]):
                sim.probe("proper_subgraph_query")
            if bool(got) != bool(pristine):
                raise Violation(PROP, site, "answer_depends_on_history", cond,
                                {"with_history": len(got), "pristine": len(pristine), "engine": c, "host": h["spec"], "pattern": p["spec"]})
            if not isinstance(got, (list, tuple)):
                raise Violation(PROP, site, "embedding_invalid", "", {"type": repr(type(got))})
            sibm = fresh_engine(dict(c, wl1=not c["wl1"])).get_mappings(h["g"], p["g"])
            sim.probe("filter_on_off_pair")
            same = (bool(sibm) == bool(got)) if c["max_mappings"] is not None else (
                sorted(sorted(map(repr, m.items())) for m in sibm) == sorted(sorted(map(repr, m.items())) for m in got))
            if not same:
                raise Violation(PROP, site, "filter_changes_verdict", "wl1_filter",
                                {"n_with_wl1_%s" % c["wl1"]: len(got), "n_with_wl1_%s" % (not c["wl1"]): len(sibm),
                                 "engine": c, "host": h["spec"], "pattern": p["spec"]})
            for m in got:
                if not gr.is_valid_map(rp, rh, dict(m), mode="mono", node_ok=_host_ge):
                    raise Violation(PROP, site, "embedding_invalid",
                                    "pattern smaller than host" if len(rp.nodes) < len(rh.nodes) else "same size",
                                    {"map": {str(a): str(b) for a, b in dict(m).items()}, "engine": c, "host": h["spec"], "pattern": p["spec"]})
            if c["max_mappings"] is not None and len(got) > max(1, c["max_mappings"]):
                raise Violation(PROP, site, "limit_exceeded", "", {"n": len(got), "max": c["max_mappings"]})
            induced = gr.exists(rp, rh, mode="induced", node_ok=_host_ge)
            mono = induced or gr.exists(rp, rh, mode="mono", node_ok=_host_ge)
            if induced and not got:
                raise Violation(PROP, site, "no_embedding_although_contained",
                                ("pattern smaller than host" if len(rp.nodes) < len(rh.nodes) else "same size") + ", wl1_filter=%s" % c["wl1"],
                                {"engine": c, "host": h["spec"], "pattern": p["spec"]})
            if got and not mono:
                raise Violation(PROP, site, "embedding_invalid", "nothing contained", {"engine": c})
            if got and induced:
                sim.probe("contained_and_mapped")
            sim.state(("map", tuple(c["node_attrs"]), c["wl1"], bool(got), induced, len(rp.nodes), len(rh.nodes)))
            sim.event("q_map", {"e": E["id"], "n": len(got)})
            for m in list(got) + list(pristine) + list(sibm):     # returned containers belong to the caller
                if isinstance(m, dict):
                    m.clear()
            if isinstance(got, list):
                got.clear()
        elif k == "q_sub":
            ch, pa = pick(op["child"]), pick(op["parent"])
            note_pair(ch, pa)
            labels = list(op["labels"])
            defaults = ["*", 0][: len(labels)]
            ct = op["check_type"]
            api = op["api"]
            site = api
            res = {}
            style = op.get("style", "explicit")
            if style in ("defaults", "bare"):
                labels, defaults = ["element", "charge"], ["*", 0]   # what the signatures document
            fn = {"SubgraphMatch.subgraph_isomorphism": SubgraphMatch.subgraph_isomorphism,
                  "SubgraphMatch.is_subgraph": SubgraphMatch.is_subgraph,
                  "graph_morphism.subgraph_isomorphism": gmorph.subgraph_isomorphism}[api]
            for filt in (False, True):
                if style == "explicit":
                    lb_shared[:] = labels
                    df_shared[:] = defaults
                    r = fn(ch["g"], pa["g"], lb_shared, df_shared, "order", filt, ct)
                elif style == "defaults":
                    # rely on the signature defaults (a shared mutable default must not drift with history)
                    r = fn(ch["g"], pa["g"], use_filter=filt, check_type=ct)
                elif style == "names_only":
                    r = fn(ch["g"], pa["g"], node_label_names=list(labels), use_filter=filt, check_type=ct)
                else:  # "bare": every documented default (use_filter=False, check_type="induced") is relied upon when it applies
                    kw = {}
                    if filt:
                        kw["use_filter"] = True
                    if ct != "induced":
                        kw["check_type"] = ct
                    r = fn(ch["g"], pa["g"], **kw)
                res[filt] = bool(r)
            if style != "explicit":
                sim.probe("call_relying_on_signature_defaults")
            sim.probe("filter_on_off_pair")
            if len(ch["spec"]["nodes"]) < len(pa["spec"]["nodes"]):
                sim.probe("proper_subgraph_query")
            dd = dict(zip(labels, defaults))
            rc, rp_ = ref_graph(ch["g"], labels, ["order"], dd), ref_graph(pa["g"], labels, ["order"], dd)
            truth = gr.exists(rc, rp_, mode="induced" if ct == "induced" else "mono", node_ok=_eq_labels)
            if res[False] != truth:
                raise Violation(PROP, site, "verdict_wrong", "use_filter=False, " + ct,
                                {"got": res[False], "reference": truth, "child": ch["spec"], "parent": pa["spec"]})
            if res[True] != res[False]:
                raise Violation(PROP, site, "filter_changes_verdict", "use_filter, " + ct,
                                {"filter_on": res[True], "filter_off": res[False], "check_type": ct, "child": ch["spec"], "parent": pa["spec"]})
            if op.get("cmp") and api != "SubgraphMatch.is_subgraph":
                # the caller's own (symmetric) comparators: charge 0 matches any charge, bond order 2 matches any order
                nc = (lambda a, b: a == b or a == 0 or b == 0) if op["cmp"] in ("node", "both") else None  # noqa: E731
                ec = (lambda a, b: a == b or a == 2 or b == 2) if op["cmp"] in ("edge", "both") else None  # noqa: E731
                kwc = {}
                if nc:
                    kwc["node_comparator"] = nc
                if ec:
                    kwc["edge_comparator"] = ec
                resc = {f_: bool(fn(ch["g"], pa["g"], node_label_names=list(labels), node_label_default=list(defaults),
                                    use_filter=f_, check_type=ct, **kwc)) for f_ in (False, True)}
                sim.probe("caller_supplied_comparator")
                n_ok = (lambda pk, hk: all(nc(a_, b_) for a_, b_ in zip(pk[0], hk[0]))) if nc else _eq_labels  # noqa: E731
                e_ok = (lambda pe, he: all(ec(a_, b_) for a_, b_ in zip(pe, he))) if ec else None  # noqa: E731
                truth_c = gr.exists(rc, rp_, mode="induced" if ct == "induced" else "mono", node_ok=n_ok, edge_ok=e_ok)
                if resc[False] != truth_c:
                    raise Violation(PROP, site, "verdict_wrong", "caller's comparator, use_filter=False, " + ct,
                                    {"got": resc[False], "reference": truth_c, "cmp": op["cmp"], "child": ch["spec"], "parent": pa["spec"]})
                if resc[True] != resc[False]:
                    raise Violation(PROP, site, "filter_changes_verdict", "use_filter, caller's comparator",
                                    {"filter_on": resc[True], "filter_off": resc[False], "cmp": op["cmp"], "check_type": ct,
                                     "child": ch["spec"], "parent": pa["spec"]})
            sim.state(("sub", ct, truth, len(rc.nodes), len(rp_.nodes), tuple(labels)))
            sim.event("q_sub", {"api": api, "ct": ct, "got": res[False]})
        elif k == "q_giso":
            a, b = pick(op["i"]), pick(op["j"])
            note_pair(a, b)
            site = "graph_morphism.graph_isomorphism"
            got = bool(gmorph.graph_isomorphism(a["g"], b["g"], use_defaults=True))
            dd = {"element": "*", "charge": 0}
            ra = ref_graph(a["g"], ["element", "charge"], ["order"], dd, 1)
            rb = ref_graph(b["g"], ["element", "charge"], ["order"], dd, 1)
            truth = gr.exists(ra, rb, mode="iso", node_ok=_eq_labels)
            if got != truth:
                raise Violation(PROP, site, "verdict_wrong", "", {"got": got, "reference": truth, "a": a["spec"], "b": b["spec"]})
            back = bool(gmorph.graph_isomorphism(b["g"], a["g"], use_defaults=True))
            if back != got:
                raise Violation(PROP, site, "verdict_not_symmetric", "", {"ab": got, "ba": back})
            # the mapping-returning sibling: its own defaults (element, atom_map, hcount equal; order default 1) and its
            # cheap invariant pre-check, which must never change the answer
            site = "graph_morphism.find_graph_isomorphism"
            dd2 = {"element": "*", "atom_map": 0, "hcount": 0}
            ra2 = ref_graph(a["g"], ["element", "atom_map", "hcount"], ["order"], dd2, 1)
            rb2 = ref_graph(b["g"], ["element", "atom_map", "hcount"], ["order"], dd2, 1)
            truth2 = gr.exists(ra2, rb2, mode="iso", node_ok=_eq_labels)
            m_fast = gmorph.find_graph_isomorphism(a["g"], b["g"])
            m_slow = gmorph.find_graph_isomorphism(a["g"], b["g"], fast_invariant_check=False)
            sim.probe("filter_on_off_pair")
            if (m_fast is None) != (m_slow is None):
                raise Violation(PROP, site, "filter_changes_verdict", "fast_invariant_check",
                                {"on": m_fast is not None, "off": m_slow is not None, "a": a["spec"], "b": b["spec"]})
            if (m_slow is not None) != truth2:
                raise Violation(PROP, site, "verdict_wrong", "", {"got": m_slow is not None, "reference": truth2, "a": a["spec"], "b": b["spec"]})
            for m_ in (m_fast, m_slow):
                if m_ is not None and not gr.is_valid_map(ra2, rb2, dict(m_), mode="iso", node_ok=_eq_labels):
                    raise Violation(PROP, site, "embedding_invalid", "", {"map": {str(x): str(y) for x, y in m_.items()}, "a": a["spec"], "b": b["spec"]})
            # the caller's own node matcher (charge only), everything else left at the signature defaults
            by_charge = lambda x, y: x.get("charge", 0) == y.get("charge", 0)  # noqa: E731
            ra3 = ref_graph(a["g"], ["charge"], ["order"], {"charge": 0}, 1)
            rb3 = ref_graph(b["g"], ["charge"], ["order"], {"charge": 0}, 1)
            same3 = lambda pk, hk: pk[0] == hk[0]  # noqa: E731
            truth3 = gr.exists(ra3, rb3, mode="iso", node_ok=same3)
            c_fast = gmorph.find_graph_isomorphism(a["g"], b["g"], node_match=by_charge)
            c_slow = gmorph.find_graph_isomorphism(a["g"], b["g"], node_match=by_charge, fast_invariant_check=False)
            if (c_fast is None) != (c_slow is None):
                raise Violation(PROP, site, "filter_changes_verdict", "fast_invariant_check, caller's node_match",
                                {"on": c_fast is not None, "off": c_slow is not None, "a": a["spec"], "b": b["spec"]})
            if (c_slow is not None) != truth3:
                raise Violation(PROP, site, "verdict_wrong", "caller's node_match", {"got": c_slow is not None, "reference": truth3,
                                                                                     "a": a["spec"], "b": b["spec"]})
            # graph_isomorphism with the caller's node matcher and use_defaults=True: the default bond-order matcher still applies
            g_c = bool(gmorph.graph_isomorphism(a["g"], b["g"], node_match=by_charge, use_defaults=True))
            if g_c != truth3:
                raise Violation(PROP, "graph_morphism.graph_isomorphism", "verdict_wrong", "caller's node_match, use_defaults=True",
                                {"got": g_c, "reference": truth3, "a": a["spec"], "b": b["spec"]})
            sim.state(("giso", got, len(ra.nodes)))
            sim.event("q_giso", {"got": got})
        elif k == "q_find":
            h, p = pick(op["host"]), pick(op["pattern"])
            note_pair(h, p)
            site = "SubgraphSearchEngine.find_subgraph_mappings"
            if na_shared and na_shared != list(op["node_attrs"]):
                sim.probe("caller_list_mutated_between_calls")
            na_shared[:] = list(op["node_attrs"])
            ea_shared[:] = ["order"]
            na = na_shared
            res2 = {}
            for pf in (False, True):
                res2[pf] = SubgraphSearchEngine.find_subgraph_mappings(
                    h["g"], p["g"], node_attrs=na_shared, edge_attrs=ea_shared, strategy=op["strategy"],
                    strict_cc_count=False, pre_filter=pf)
            sim.probe("filter_on_off_pair")
            canon_ = lambda ms: sorted(sorted(m.items()) for m in ms)  # noqa: E731
            if canon_(res2[True]) != canon_(res2[False]):
                raise Violation(PROP, site, "filter_changes_verdict", "pre_filter", {"on": len(res2[True]), "off": len(res2[False]),
                                                                                      "host": h["spec"], "pattern": p["spec"], "strategy": op["strategy"]})
            rh, rp = ref_graph(h["g"], na, ["order"]), ref_graph(p["g"], na, ["order"])
            for m in res2[False]:
                if not gr.is_valid_map(rp, rh, dict(m), mode="mono", node_ok=_host_ge):
                    raise Violation(PROP, site, "embedding_invalid", op["strategy"], {"map": {str(a): str(b) for a, b in m.items()},
                                                                                       "host": h["spec"], "pattern": p["spec"]})
            all_maps = list(gr.maps(rp, rh, mode="mono", node_ok=_host_ge, limit=6000))
            truth_n = len(all_maps)
            if op["strategy"] == "all":
                if truth_n < 5000 and len(res2[False]) != truth_n:
                    raise Violation(PROP, site, "verdict_wrong", "strategy=all", {"got": len(res2[False]), "reference": truth_n,
                                                                                  "host": h["spec"], "pattern": p["spec"]})
            elif truth_n < 5000:
                # component-aware strategies: at least one embedding whenever one exists that sends different
                # pattern components into different host components (every embedding if the host has fewer components)
                hcc = {n: i for i, c in enumerate(nx.connected_components(h["g"])) for n in c}
                pccs = [set(c) for c in nx.connected_components(p["g"])]
                if len(set(hcc.values())) < len(pccs):
                    comp_ok = all_maps
                else:
                    comp_ok = []
                    for m in all_maps:
                        used = [{hcc[m[n]] for n in c} for c in pccs]
                        if all(len(u) == 1 for u in used) and len({next(iter(u)) for u in used}) == len(pccs):
                            comp_ok.append(m)
                need = bool(comp_ok) or (op["strategy"] == "bt" and truth_n > 0)
                if need and not res2[False]:
                    raise Violation(PROP, site, "no_embedding_although_contained", "strategy=" + op["strategy"],
                                    {"host": h["spec"], "pattern": p["spec"], "component_respecting_embeddings": len(comp_ok),
                                     "embeddings": truth_n})
                if len(pccs) > 1:
                    sim.probe("multi_component_pattern")
            sim.state(("find", op["strategy"], bool(res2[False]), len(rp.nodes), len(rh.nodes)))
            sim.event("q_find", {"n": len(res2[False])})
            for lst in res2.values():
                for m in lst:
                    if isinstance(m, dict):
                        m.clear()
                if isinstance(lst, list):
                    lst.clear()
        check_unmutated(k)


# ---------------------------------------------------------------------------
# simplification
# ---------------------------------------------------------------------------


def simplify(case: Dict[str, Any]) -> Iterable[Dict[str, Any]]:
    for idx, op in enumerate(case["ops"]):
        def repl(n: Dict[str, Any]) -> Dict[str, Any]:
            c = copy.deepcopy(case)
            c["ops"][idx] = n
            return c
        if op["op"] == "new_graph":
            sp = op["spec"]
            if len(sp["nodes"]) > 1:
                for d in range(len(sp["nodes"])):
                    n = copy.deepcopy(op)
                    nid = n["spec"]["nodes"][d][0]
                    del n["spec"]["nodes"][d]
                    n["spec"]["edges"] = [e for e in n["spec"]["edges"] if nid not in (e[0], e[1])]
                    yield repl(n)
            for d in range(len(sp["edges"])):
                n = copy.deepcopy(op)
                del n["spec"]["edges"][d]
                yield repl(n)
            for d, nd in enumerate(sp["nodes"]):
                for fld, val in ((2, 0), (3, None), (1, "C")):
                    if nd[fld] != val:
                        n = copy.deepcopy(op)
                        n["spec"]["nodes"][d][fld] = val
                        yield repl(n)
            for d, e in enumerate(sp["edges"]):
                if e[2] not in (1, None):
                    n = copy.deepcopy(op)
                    n["spec"]["edges"][d][2] = 1
                    yield repl(n)
