"""C13 — clustering partitions graphs exactly into isomorphism classes, for every
arrival history (batch boundaries, order, redelivery, restarts with only the durable
template library surviving).

Real code: synkit.Graph.Matcher.batch_cluster.BatchCluster (fit / cluster / lib_check),
graph_cluster.GraphCluster (fit / iterative_cluster), graph_morphism.graph_isomorphism,
synkit.Utils.utils.stratified_random_sample.
"""
from __future__ import annotations

import copy
import pickle
import random as _random
from typing import Any, Dict, Iterable, List, Optional, Tuple

import networkx as nx

import synkit.Graph.Matcher.batch_cluster as _bc
import synkit.Graph.Matcher.graph_cluster as _gc
import synkit.Utils.utils as _utils
from synkit.Graph.Matcher.batch_cluster import BatchCluster
from synkit.Graph.Matcher.graph_cluster import GraphCluster

from ..kernel import Sim, Violation, rng_for, derive
from ..seams import Seams, GCControl
from ..executor import World
from . import rcdata

PROP = "C13"
TIERS = {
    "quick": {"runs": 30000, "wall": 75, "chunk": 100},
    "thorough": {"runs": 800000, "wall": 840, "chunk": 300},
}
STEP_CAP = 500000
SHRINK_BUDGET = 250
FAULT_OPS = ("restart", "redeliver", "alloc", "gc", "prune", "side_job", "reorder_library")
PROBES = ["service_configured_explicitly", "entries_carry_unrelated_columns", "redelivery_hit_template", "restart_between_batches", "near_miss_same_pregroup",
          "class_of_size_ge3_split_across_batches", "single_batch_no_template_path", "relabelled_duplicate",
          "one_shot_compared", "lib_check_new_class", "lib_check_existing_class", "library_ids_not_contiguous",
          "library_not_in_ascending_class_order", "empty_centre_item", "caller_postprocessed_returned_entries",
          "two_service_objects_share_library", "service_object_did_side_job", "item_derived_from_delivered_object"]
REAL = ["synkit.Graph.Matcher.batch_cluster.BatchCluster.fit / cluster / lib_check / batch_dicts",
        "synkit.Graph.Matcher.graph_cluster.GraphCluster.fit / iterative_cluster",
        "synkit.Graph.Matcher.graph_morphism.graph_isomorphism (networkx is_isomorphic with generic matchers)",
        "synkit.Utils.utils.stratified_random_sample"]
STUB = ["builtin id() inside synkit modules -> SimAllocator (address re-issue only after the owner is provably dead), cyclic GC trigger",
        "random module object seen by synkit.Utils.utils -> private random.Random (the library reseeds the global RNG)",
        "restart = new BatchCluster + template library round-tripped through pickle (only durable state survives)"]
ASSUMPTIONS = [
    "ground truth classes come from networkx VF2 with independent match functions categorical_node_match(['element','charge']) / categorical_edge_match('order') on canonical (un-relabelled) copies, memoised by content",
    "the pre-grouping attribute is either absent or an isomorphism-invariant string computed by the harness (sorted element/charge multiset + edge count), so the property's precondition holds by construction",
    "class labels are never compared between paths, only partitions; a redelivered item must keep its own earlier label",
    "empty deliveries are not generated (GraphCluster.fit([]) is outside the property)",
]
RULE = ("items = reaction-centre graphs from the vendored corpus (150 RCs of graph.pkl.gz / hydrogen_test.pkl.gz) plus relabelled "
        "copies (node renumbering + insertion-order shuffle), exact duplicates and near-misses (one bond order / one charge changed); "
        "op list deliver{items,batch_size} / cluster / classify_one / one_shot{order} with fault ops redeliver{earlier batch} and "
        "restart (new BatchCluster, templates through pickle); after every op: one class per item, same class iff isomorphic, "
        "redelivered items keep their class, templates pairwise non-isomorphic, one-shot partition == incremental partition == truth. "
        "Widened after eight seeded rounds: two service objects on one library, prune / reorder_library / side_job, callers post-processing "
        "returned entries, items derived from delivered objects, attribute kinds (str / descending list / pair), empty centres, negative and "
        "float charges, default-valued attributes omitted, synthetic topologies (bridged bicyclics, hexagon vs two triangles, prism vs K3,3, "
        "spiro vs fused, positional isomers). "
        "Non-trivial = >=1 fault (restart/redeliver) fired and >=1 probe hit")


# ---------------------------------------------------------------------------
# generation
# ---------------------------------------------------------------------------


def gen_items(rng, pool: List[int], n: int, near_p: float) -> List[Dict[str, Any]]:
    out = []
    for _ in range(n):
        b = rng.choice(pool)
        ed = None
        r = rng.random()
        if r < near_p:
            ed = ["order", rng.randrange(8)]
        elif r < near_p * 1.5:
            ed = ["charge", rng.randrange(8)]
        elif r < near_p * 1.7:
            ed = ["element", rng.randrange(8)]
        if rng.random() < 0.12:
            b = "syn%d" % rng.randrange(4)            # small graphs with plain orders / charges (defaults matter)
            if any(isinstance(x, str) for x in pool):
                b = rng.choice([x for x in pool if isinstance(x, str)])
        if ed is None and rng.random() < 0.08:
            ed = ["charge_set", rng.randrange(4), rng.choice([-1, -2])]   # charges -1 / -2 at the same atom (not isomorphic)
        sp = rcdata.spec(b, rng.randrange(1 << 30) if rng.random() < 0.7 else None, ed)
        if rng.random() < 0.15:
            sp["omit_defaults"] = True
        if ed is not None and rng.random() < 0.5:
            # the caller derives the near-miss from an object it delivered earlier: copy, then edit the copy
            sp["relabel"] = None
            sp["derive"] = rng.choice(["copy", "deepcopy", "pickle"])
        out.append(sp)
    if rng.random() < 0.06:
        out.insert(rng.randrange(len(out) + 1), {"base": "empty", "relabel": None, "edit": None})
        if rng.random() < 0.7:
            out.insert(rng.randrange(len(out) + 1), {"base": "empty", "relabel": None, "edit": None})
    return out


def generate(seed: int, tier: str = "quick") -> Dict[str, Any]:
    rng = rng_for(seed, "c13", "gen")
    n_base = len(rcdata.items())
    pool = [rng.randrange(n_base) for _ in range(rng.randint(1, 6))]
    if rng.random() < 0.3:
        # a run on synthetic topologies (bridged bicyclics, look-alikes with equal degree sequences): several copies of each
        fam = rng.choice(rcdata.SYN_FAMILIES)
        syn = ["syn%d" % i for i in fam]
        pool = (syn * 3 + pool[:2]) if rng.random() < 0.5 else (pool + syn * 2)
    near_p = rng.choice([0.0, 0.15, 0.3])
    cfg = {"attr": rng.random() < 0.6, "attr_kind": rng.choice(["str", "str", "deg_desc", "size_pair"]),
           "extra_fields": rng.random() < 0.3, "explicit_ctor": rng.random() < 0.25}
    faulty = rng.random() < 0.75
    ops: List[Dict[str, Any]] = []
    k = 0

    def s() -> int:
        nonlocal k
        k += 1
        return derive(seed, "op", k)

    if faulty and rng.random() < 0.7:
        ops.append({"op": "alloc", "s": s(), "p_reuse": rng.choice([0.3, 0.6, 1.0, 1.0]),
                    "pick": rng.choice(["lifo", "fifo", "rand"]), "gc_p": rng.choice([0.05, 0.3, 0.6])})
    deep = tier == "thorough" and rng.random() < 0.4
    for _ in range(rng.randint(8, 18) if deep else rng.randint(2, 9)):
        c = rng.random()
        if faulty and rng.random() < 0.1:
            ops.append({"op": "gc", "s": s()})
        if faulty and rng.random() < 0.08:
            # the same long-lived service object does an unrelated job with its own (empty) library in between
            ops.append({"op": "side_job", "s": s(), "inst": rng.choice([0, 1]), "items": gen_items(rng, pool, rng.randint(1, 4), near_p)})
        if faulty and rng.random() < 0.08:
            ops.append({"op": "reorder_library", "s": s(), "how": rng.choice(["shuffle", "reverse", "by_attr"])})
        if faulty and rng.random() < 0.08:
            ops.append({"op": "prune", "s": s(), "drop": [rng.randrange(8) for _ in range(rng.randint(1, 2))]})
        if faulty and c < 0.12:
            ops.append({"op": "restart", "s": s(), "inst": rng.choice([0, 1, None])})
        elif faulty and c < 0.27:
            ops.append({"op": "redeliver", "s": s(), "batch": rng.randrange(8), "batch_size": rng.choice([None, 1, 2, 3]), "inst": rng.choice([0, 1])})
        elif c < 0.6:
            n = rng.randint(1, 10)
            ops.append({"op": "deliver", "s": s(), "items": gen_items(rng, pool, n, near_p), "inst": rng.choice([0, 0, 1]),
                        "batch_size": rng.choice([None, None, 1, 2, 3, 5, n, n + 2])})
        elif c < 0.7:
            ops.append({"op": "cluster", "s": s(), "items": gen_items(rng, pool, rng.randint(1, 6), near_p), "inst": rng.choice([0, 0, 1])})
        elif c < 0.85:
            ops.append({"op": "classify_one", "s": s(), "item": gen_items(rng, pool, 1, near_p)[0], "inst": rng.choice([0, 0, 1])})
        else:
            ops.append({"op": "one_shot", "s": s(), "perm_seed": rng.randrange(1 << 30)})
    return {"cfg": cfg, "ops": ops}


# ---------------------------------------------------------------------------
# execution
# ---------------------------------------------------------------------------


def execute(case: Dict[str, Any], sim: Sim) -> None:
    seams = Seams()
    world = World(sim)
    with GCControl():
        seams.install(id_fn=world.id_fn(), random_obj=_random.Random(99))
        try:
            _run(case, sim, world)
        finally:
            seams.uninstall()


def _run(case: Dict[str, Any], sim: Sim, world: World) -> None:
    akey = "inv" if case["cfg"].get("attr") else None
    if case["cfg"].get("explicit_ctor"):
        # the documented defaults spelled out, the same caller-owned lists handed to both service objects
        names_, dflt_ = ["element", "charge"], ["*", 0]
        bcs: List[BatchCluster] = [BatchCluster(names_, dflt_, "order"),
                                   BatchCluster(node_label_names=names_, node_label_default=dflt_, edge_attribute="order", backend="nx")]
        sim.probe("service_configured_explicitly")
    else:
        bcs = [BatchCluster(), BatchCluster()]   # two long-lived service objects share one durable library
    used_inst: set = set()
    held: Dict[str, nx.Graph] = {}   # content key -> a delivered, un-relabelled, un-edited graph object (caller keeps a few)
    templates: List[Dict[str, Any]] = []
    seen: List[Dict[str, Any]] = []          # every delivered item: {"spec", "cls"}
    batches: List[List[int]] = []            # indices into seen, per delivery
    restarted_since_delivery = False

    def service(op: Dict[str, Any]) -> BatchCluster:
        i = int(op.get("inst") or 0) % 2
        if used_inst and i not in used_inst:
            sim.probe("two_service_objects_share_library")
        used_inst.add(i)
        return bcs[i]

    def mk(sp: Dict[str, Any], uid: int) -> Dict[str, Any]:
        if sp["base"] == "empty":
            d0: Dict[str, Any] = {"gml": rcdata.build(sp), "uid": uid}
            if akey:
                d0[akey] = rcdata.invariant_attr_kind(d0["gml"], case["cfg"].get("attr_kind", "str"))
            sim.probe("empty_centre_item")
            return d0
        src_key = str(sp["base"]) if isinstance(sp["base"], str) else str(sp["base"] % len(rcdata.items()))
        if sp.get("derive") and sp.get("edit") and src_key in held:
            src = held[src_key]
            if sp["derive"] == "copy":
                g = src.copy()
            elif sp["derive"] == "deepcopy":
                g = copy.deepcopy(src)
            else:
                g = pickle.loads(pickle.dumps(src))
            rcdata.apply_edit_inplace(g, sp["edit"])
            sim.probe("item_derived_from_delivered_object")
        else:
            g = rcdata.build({"base": sp["base"], "relabel": sp.get("relabel"), "edit": sp.get("edit"),
                              "omit_defaults": sp.get("omit_defaults")})
            if sp.get("relabel") is None and not sp.get("edit") and len(held) < 8:
                held.setdefault(src_key, g)
        d: Dict[str, Any] = {"gml": g, "uid": uid}
        if akey:
            d[akey] = rcdata.invariant_attr_kind(g, case["cfg"].get("attr_kind", "str"))
        if case["cfg"].get("extra_fields"):
            # the caller's own bookkeeping columns, unrelated to the key it names in the call (and not invariant)
            d["signature"] = "row-%d" % uid
            d["WLHash"] = "h%d" % (uid % 3)
            d["R-id"] = uid
            sim.probe("entries_carry_unrelated_columns")
        return d

    def check_templates(site: str) -> None:
        """Representatives: every template has a class; two templates carry the same class id iff they are
        isomorphic (several representatives of one class are legal, two classes for one kind are not)."""
        cls = [t.get("class") for t in templates]
        if any(c is None for c in cls):
            raise Violation(PROP, site, "template_class_ids_not_unique", "", {"classes": cls})
        known = [(t.get("class"), seen[t["uid"]]["spec"]) for t in templates
                 if isinstance(t.get("uid"), int) and 0 <= t["uid"] < len(seen)]
        for i in range(len(known)):
            for j in range(i):
                iso = rcdata.isomorphic(known[i][1], known[j][1])
                if (known[i][0] == known[j][0]) != iso:
                    raise Violation(PROP, site, "template_class_ids_not_unique", "",
                                    {"classes": cls, "a": known[j][1], "b": known[i][1], "isomorphic": iso})

    def check_partition(site: str, cond: str) -> None:
        # same class iff isomorphic, over everything delivered so far
        n = len(seen)
        for i in range(n):
            if seen[i].get("retired"):
                continue
            if seen[i]["cls"] is None:
                raise Violation(PROP, site, "item_without_class", cond, {"item": seen[i]["spec"], "class": repr(seen[i]["cls"])})
        rep: Dict[int, int] = {}
        for i in range(n):
            if seen[i].get("retired"):
                continue
            c = seen[i]["cls"]
            if c in rep:
                if not rcdata.isomorphic(seen[rep[c]]["spec"], seen[i]["spec"]):
                    raise Violation(PROP, site, "non_isomorphic_items_share_class", cond,
                                    {"a": seen[rep[c]]["spec"], "b": seen[i]["spec"], "class": c})
            else:
                for c2, j in rep.items():
                    if rcdata.isomorphic(seen[j]["spec"], seen[i]["spec"]):
                        raise Violation(PROP, site, "isomorphic_items_in_different_classes", cond,
                                        {"a": seen[j]["spec"], "b": seen[i]["spec"], "classes": [c2, c]})
                rep[c] = i

    def absorb(site: str, cond: str, out: List[Dict[str, Any]], specs: List[Dict[str, Any]], uids: List[int],
               known_cls: Optional[List[Optional[int]]] = None) -> None:
        if [d.get("uid") for d in out] != uids:
            raise Violation(PROP, site, "items_lost_or_reordered", cond, {"want": uids, "got": [d.get("uid") for d in out]})
        for d, sp, uid in zip(out, specs, uids):
            if "class" not in d:
                raise Violation(PROP, site, "item_without_class", cond, {"item": sp})
            seen[uid]["cls"] = d["class"]
        # the caller post-processes what it got back (renames / drops keys, as HierContext does with 'class'):
        # the library must not be affected by that
        if specs and (uids[0] % 2 == 0):
            for d in out:
                try:
                    d["my_class"] = d.pop("class")
                    if uids[0] % 4 == 0:
                        d.pop("gml", None)
                except (TypeError, AttributeError):
                    pass                                   # read-only entries are fine
            sim.probe("caller_postprocessed_returned_entries")

    for op in case["ops"]:
        sim.step()
        world.reseed(op.get("s", 0))
        k = op["op"]
        if k == "alloc":
            world.set_alloc_policy(op["p_reuse"], op["pick"], op["gc_p"])
            sim.event("alloc", [op["p_reuse"], op["pick"], op["gc_p"]])
            continue
        if k == "gc":
            world.main_alloc.collect()
            sim.event("gc", None)
            continue
        if k == "reorder_library":
            # the caller keeps the durable library in another order (most-hit first, sorted, merged and reloaded ...)
            if len(templates) >= 2:
                r_ = rng_for(op.get("s", 0), "reorder")
                if op["how"] == "reverse":
                    templates = list(reversed(templates))
                elif op["how"] == "shuffle":
                    templates = list(templates)
                    r_.shuffle(templates)
                else:
                    templates = sorted(templates, key=lambda t: (repr(t.get(akey)), -int(t["class"]) if isinstance(t["class"], int) else 0))
                ids = [t["class"] for t in templates]
                if ids != sorted(ids):
                    sim.fault("reorder_library")
                    sim.probe("library_not_in_ascending_class_order")
            sim.event("reorder_library", len(templates))
            continue
        if k == "prune":
            # the caller compacts the durable library: some representatives (and with them their classes) are
            # forgotten; items of forgotten classes are retired from the oracle (a later isomorphic item
            # legitimately opens a fresh class)
            if len(templates) >= 2:
                drop_idx = sorted({d % len(templates) for d in op["drop"]})
                if len(drop_idx) < len(templates):
                    gone = {templates[i]["class"] for i in drop_idx}
                    templates = [t for i, t in enumerate(templates) if i not in drop_idx]
                    for it in seen:
                        if it["cls"] in gone:
                            it["retired"] = True
                    sim.fault("prune")
                    ids = sorted(t["class"] for t in templates)
                    if ids != list(range(len(ids))):
                        sim.probe("library_ids_not_contiguous")
            sim.event("prune", len(templates))
            continue
        if k == "side_job":
            specs = op["items"]
            if specs:
                jb = service(op)
                data = [mk(sp, -1 - n_) for n_, sp in enumerate(specs)]
                # "no library yet" is written as [] or as None (documented for the library argument)
                out, side_t = jb.cluster(data, (None if op.get("s", 0) % 2 else []), rule_key="gml", attribute_key=akey)
                if not isinstance(side_t, list):
                    raise Violation(PROP, "BatchCluster.cluster", "library_not_returned", "side job with an empty library", {"got": repr(side_t)[:80]})
                got = [d.get("class") for d in out]
                if not rcdata.same_partition(got, rcdata.truth_partition(specs)):
                    raise Violation(PROP, "BatchCluster.cluster", "isomorphic_items_in_different_classes" , "side job with an empty library",
                                    {"got": got, "truth": rcdata.truth_partition(specs), "items": specs})
                sim.fault("side_job")
                sim.probe("service_object_did_side_job")
            sim.event("side_job", len(specs))
            continue
        if k == "restart":
            which = op.get("inst")
            for i in ((0, 1) if which is None else (int(which) % 2,)):
                bcs[i] = BatchCluster()
            templates = pickle.loads(pickle.dumps(templates))
            restarted_since_delivery = True
            sim.fault("restart")
            sim.event("restart", len(templates))
            continue
        if k in ("deliver", "cluster"):
            specs = op["items"]
            if not specs:
                continue
            uids = list(range(len(seen), len(seen) + len(specs)))
            for sp in specs:
                seen.append({"spec": sp, "cls": None})
            batches.append(uids)
            data = [mk(sp, u) for sp, u in zip(specs, uids)]
            old_classes = {t["class"] for t in templates}
            had_templates = bool(templates)
            if restarted_since_delivery and had_templates:
                sim.probe("restart_between_batches")
            restarted_since_delivery = False
            if k == "deliver":
                site = "BatchCluster.fit"
                bs = op["batch_size"]
                if (bs is None or bs >= len(specs)) and not had_templates:
                    sim.probe("single_batch_no_template_path")
                cond = "batch_size=%s, %s" % ("None" if bs is None else ("<n" if bs < len(specs) else ">=n"),
                                              "templates carried" if had_templates else "no templates")
                lib_arg = None if (not templates and op.get("s", 0) % 3 == 0) else templates
                out, templates = service(op).fit(data, lib_arg, rule_key="gml", attribute_key=akey, batch_size=bs)
            else:
                site = "BatchCluster.cluster"
                cond = "templates carried" if had_templates else "no templates"
                lib_arg = None if (not templates and op.get("s", 0) % 3 == 0) else templates
                out, templates = service(op).cluster(data, lib_arg, rule_key="gml", attribute_key=akey)
                if not isinstance(templates, list):
                    raise Violation(PROP, site, "library_not_returned", cond, {"got": repr(templates)[:80]})
            absorb(site, cond, out, specs, uids)
            # probes
            keys = [rcdata.content_key(sp) for sp in specs]
            if len(set(keys)) < len(keys):
                sim.probe("relabelled_duplicate")
            if any(sp.get("edit") and sp["edit"][0] == "order" for sp in specs):
                sim.probe("near_miss_same_pregroup")
            if k == "deliver" and op["batch_size"] is not None and op["batch_size"] < len(specs):
                for kk in set(keys):
                    pos = [i for i, x in enumerate(keys) if x == kk]
                    if len(pos) >= 3 and len({p // op["batch_size"] for p in pos}) >= 2:
                        sim.probe("class_of_size_ge3_split_across_batches")
            # a class id handed out now must be new unless the item is isomorphic to an old template's class
            check_templates(site)
            check_partition(site, cond)
            for u in uids:
                c = seen[u]["cls"]
                if c in old_classes:
                    continue
                # fresh class: no earlier (non-retired) item may be isomorphic to it
                for j in range(uids[0]):
                    if not seen[j].get("retired") and rcdata.isomorphic(seen[j]["spec"], seen[u]["spec"]):
                        raise Violation(PROP, site, "fresh_class_despite_isomorphic_template", cond,
                                        {"item": seen[u]["spec"], "earlier": seen[j]["spec"], "classes": [seen[j]["cls"], c]})
            sim.state((k, len(set(d["cls"] for d in seen)), min(len(seen), 12), akey is not None,
                       (op.get("batch_size") or 0) if k == "deliver" else -1, had_templates))
            sim.event(k, {"n": len(specs), "classes": sorted(set(d["cls"] for d in seen)), "templates": len(templates)})
        elif k == "redeliver":
            if not batches:
                continue
            uids = batches[op["batch"] % len(batches)]
            if any(seen[u].get("retired") for u in uids):
                continue
            specs = [seen[u]["spec"] for u in uids]
            before = [seen[u]["cls"] for u in uids]
            n_t = len(templates)
            data = [mk(sp, u) for sp, u in zip(specs, uids)]
            if not templates:
                continue
            sim.fault("redeliver")
            site = "BatchCluster.fit"
            cond = "redelivery"
            if restarted_since_delivery:
                sim.probe("restart_between_batches")
            restarted_since_delivery = False
            out, templates = service(op).fit(data, templates, rule_key="gml", attribute_key=akey, batch_size=op["batch_size"])
            if [d.get("uid") for d in out] != uids:
                raise Violation(PROP, site, "items_lost_or_reordered", cond, {"want": uids, "got": [d.get("uid") for d in out]})
            after = [d.get("class") for d in out]
            if after != before:
                raise Violation(PROP, site, "redelivered_item_changed_class", cond,
                                {"before": before, "after": after, "items": specs})
            if len(templates) != n_t:
                raise Violation(PROP, site, "fresh_class_despite_isomorphic_template", cond,
                                {"templates_before": n_t, "templates_after": len(templates)})
            sim.probe("redelivery_hit_template")
            check_templates(site)
            sim.event("redeliver", {"n": len(uids)})
        elif k == "classify_one":
            sp = op["item"]
            uid = len(seen)
            seen.append({"spec": sp, "cls": None})
            batches.append([uid])
            old_classes = {t["class"] for t in templates}
            if restarted_since_delivery and templates:
                sim.probe("restart_between_batches")
            restarted_since_delivery = False
            site = "BatchCluster.lib_check"
            lib_arg = None if (not templates and op.get("s", 0) % 3 == 0) else templates
            d, templates = service(op).lib_check(mk(sp, uid), lib_arg, rule_key="gml", attribute_key=akey)
            if "class" not in d:
                raise Violation(PROP, site, "item_without_class", "", {"item": sp})
            seen[uid]["cls"] = d["class"]
            iso_earlier = [j for j in range(uid) if not seen[j].get("retired") and rcdata.isomorphic(seen[j]["spec"], sp)]
            if d["class"] in old_classes:
                sim.probe("lib_check_existing_class")
            else:
                sim.probe("lib_check_new_class")
                if iso_earlier:
                    raise Violation(PROP, site, "fresh_class_despite_isomorphic_template", "",
                                    {"item": sp, "earlier": seen[iso_earlier[0]]["spec"]})
            check_templates(site)
            check_partition(site, "")
            sim.state(("one", d["class"] in old_classes, len(templates)))
            sim.event("classify_one", {"class": d["class"], "templates": len(templates)})
        elif k == "one_shot":
            if len(seen) < 1:
                continue
            order = list(range(len(seen)))
            _random.Random(op["perm_seed"]).shuffle(order)
            specs = [seen[u]["spec"] for u in order]
            truth = rcdata.truth_partition(specs)
            incr = [seen[u]["cls"] for u in order]
            for name in ("GraphCluster.fit", "BatchCluster.fit"):
                data = [mk(sp, u) for sp, u in zip(specs, order)]
                if name == "GraphCluster.fit":
                    out = GraphCluster().fit(data, rule_key="gml", attribute_key=akey)
                else:
                    out, _t = BatchCluster().fit(data, [], rule_key="gml", attribute_key=akey, batch_size=None)
                    cls_t = [t.get("class") for t in _t]
                    if sorted(cls_t) != sorted(set(d.get("class") for d in out)):
                        raise Violation(PROP, name, "templates_do_not_cover_classes", "one-shot",
                                        {"template_classes": cls_t, "classes": sorted(set(d.get("class") for d in out))})
                if [d.get("uid") for d in out] != order:
                    raise Violation(PROP, name, "items_lost_or_reordered", "one-shot", {})
                got = [d.get("class") for d in out]
                if any(c is None for c in got):
                    raise Violation(PROP, name, "item_without_class", "one-shot", {"classes": got})
                if not rcdata.same_partition(got, truth):
                    a = b = None
                    cls = "partition_depends_on_order"
                    for i in range(len(got)):
                        for j in range(i):
                            if (got[i] == got[j]) != (truth[i] == truth[j]):
                                a, b = specs[j], specs[i]
                                cls = "non_isomorphic_items_share_class" if got[i] == got[j] else "isomorphic_items_in_different_classes"
                                break
                        if a:
                            break
                    raise Violation(PROP, name, cls, "one-shot", {"a": a, "b": b, "got": got, "truth": truth})
                live = [i for i, u in enumerate(order) if not seen[u].get("retired")]
                if not rcdata.same_partition([got[i] for i in live], [incr[i] for i in live]):
                    raise Violation(PROP, name, "one_shot_differs_from_incremental", "one-shot", {"one_shot": got, "incremental": incr})
            sim.probe("one_shot_compared")
            sim.state(("one_shot", len(set(truth)), min(len(seen), 12)))
            sim.event("one_shot", {"classes": len(set(truth)), "n": len(seen)})


# ---------------------------------------------------------------------------
# simplification
# ---------------------------------------------------------------------------


def simplify(case: Dict[str, Any]) -> Iterable[Dict[str, Any]]:
    for idx, op in enumerate(case["ops"]):
        def repl(n: Dict[str, Any]) -> Dict[str, Any]:
            c = copy.deepcopy(case)
            c["ops"][idx] = n
            return c
        if "items" in op:
            if len(op["items"]) > 1:
                for d in range(len(op["items"])):
                    n = copy.deepcopy(op)
                    del n["items"][d]
                    yield repl(n)
            for d, it in enumerate(op["items"]):
                if it.get("relabel") is not None:
                    n = copy.deepcopy(op)
                    n["items"][d]["relabel"] = None
                    yield repl(n)
        if op.get("batch_size") not in (None, 1):
            n = copy.deepcopy(op)
            n["batch_size"] = 1
            yield repl(n)
    if case["cfg"].get("attr"):
        c = copy.deepcopy(case)
        c["cfg"]["attr"] = False
        yield c
