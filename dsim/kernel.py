"""Simulation kernel: seed streams, canonical event log with rolling digest,
fault / probe counters, abstract-state digests, violation signatures.

Nothing in here reads a real clock or the global `random` module.
"""
from __future__ import annotations

import hashlib
import json
import random
from typing import Any, Dict, Iterable, List, Optional, Tuple


def derive(seed: int, *labels: Any) -> int:
    """Independent 64-bit sub-seed for (seed, labels...)."""
    h = hashlib.sha256()
    h.update(str(int(seed)).encode())
    for lab in labels:
        h.update(b"\x1f")
        h.update(str(lab).encode())
    return int.from_bytes(h.digest()[:8], "big")


def rng_for(seed: int, *labels: Any) -> random.Random:
    return random.Random(derive(seed, *labels))


def canon(obj: Any) -> Any:
    """Canonicalise an observation: sets sorted, tuples->lists, dict keys str."""
    if isinstance(obj, dict):
        return {str(k): canon(v) for k, v in sorted(obj.items(), key=lambda kv: str(kv[0]))}
    if isinstance(obj, (set, frozenset)):
        return sorted((canon(x) for x in obj), key=lambda x: json.dumps(x, sort_keys=True, default=str))
    if isinstance(obj, (list, tuple)):
        return [canon(x) for x in obj]
    if isinstance(obj, (str, int, bool)) or obj is None:
        return obj
    if isinstance(obj, float):
        return repr(obj)
    return str(obj)


def cjson(obj: Any) -> str:
    return json.dumps(canon(obj), sort_keys=True, separators=(",", ":"), default=str)


def digest64(obj: Any) -> int:
    return int.from_bytes(hashlib.blake2b(cjson(obj).encode(), digest_size=8).digest(), "big")


class Violation(Exception):
    """A property violation with a signature (property, site, failure class, condition)."""

    def __init__(self, prop: str, site: str, cls: str, cond: str = "", detail: Any = None):
        self.prop = prop
        self.site = site
        self.cls = cls
        self.cond = cond
        self.detail = detail
        super().__init__(f"{prop} {site} {cls} [{cond}] {cjson(detail)[:600]}")

    @property
    def signature(self) -> Tuple[str, str, str, str]:
        return (self.prop, self.site, self.cls, self.cond)


class StepCap(Exception):
    """Raised when a run exceeds its step budget (harness error, not a verdict)."""


class Sim:
    """Per-run simulation context."""

    def __init__(self, seed: int, keep_log: bool = False, step_cap: int = 2_000_000):
        self.seed = int(seed)
        self._h = hashlib.sha256()
        self._h.update(str(self.seed).encode())
        self.keep_log = keep_log
        self.log: List[str] = []
        self.n_events = 0
        self.faults: Dict[str, int] = {}
        self.probes: Dict[str, int] = {}
        self.states: set = set()
        self.sim_seconds = 0.0
        self.steps = 0
        self.step_cap = step_cap
        self.known: List[Tuple[Tuple[str, str, str, str], Any]] = []  # tolerated (known) violations seen
        # set by a property while it feeds an unusual-but-legal input: the library may refuse it cleanly
        # (ValueError/TypeError/... raised by the call), it may not answer wrongly
        self.exotic: Optional[str] = None

    # ---- streams -------------------------------------------------------
    def rng(self, *labels: Any) -> random.Random:
        return rng_for(self.seed, *labels)

    # ---- log -----------------------------------------------------------
    def event(self, kind: str, payload: Any = None) -> None:
        line = kind + " " + cjson(payload)
        self._h.update(line.encode())
        self._h.update(b"\n")
        self.n_events += 1
        if self.keep_log:
            self.log.append(line)

    @property
    def digest(self) -> str:
        return self._h.hexdigest()

    # ---- counters ------------------------------------------------------
    def fault(self, kind: str, n: int = 1) -> None:
        self.faults[kind] = self.faults.get(kind, 0) + n

    def probe(self, name: str, n: int = 1) -> None:
        self.probes[name] = self.probes.get(name, 0) + n

    def state(self, obj: Any) -> None:
        if len(self.states) < 4096:
            self.states.add(digest64(obj))

    def step(self, n: int = 1) -> None:
        self.steps += n
        if self.steps > self.step_cap:
            raise StepCap(f"step cap {self.step_cap} exceeded")


def merge_counts(dst: Dict[str, int], src: Dict[str, int]) -> None:
    for k, v in src.items():
        dst[k] = dst.get(k, 0) + v
