"""Regenerates MANIFEST.json from one table (keeps it valid at all times)."""
import json, subprocess

CLAIMED = {
    "C07": dict(
        text="Several logical clients (GraphMatcherEngine instances with different attribute selections, plus the stateless "
             "helpers) issue seeded query histories against a shared pool of small graph objects whose lifetime and cyclic-GC "
             "timing the simulator controls. Every answer is evaluated three ways: on the shared objects with their history, "
             "on pristine deep copies with a fresh engine (history independence), and by a backtracking reference on <= 6 nodes "
             "(verdicts, embedding validity, containment, symmetry); filter on/off pairs are evaluated side by side. "
             "Seeded sampling of histories x inputs x configurations; evidence, not proof.",
        ref="3.4",
        note="Trusted: the backtracking reference (dsim/props/graphref.py). Stub: GC trigger only. hcount direction accepted both "
             "ways where the statement leaves it open. Real: graph_matcher.py, subgraph_matcher.py, graph_morphism.py, networkx VF2."),
    "C13": dict(
        text="Clustering is driven as a small service with durable state (the template library) and unreliable delivery: seeded "
             "histories of deliveries with varying batch boundaries and orders, single-item classification, redelivery of "
             "earlier batches and restarts in which only the pickled template library survives. After every operation the "
             "classes of everything delivered so far are compared with VF2 ground truth (same class iff isomorphic), "
             "redelivered items must keep their class, templates must stay pairwise non-isomorphic, and one-shot clustering "
             "in a random order must give the same partition. Seeded sampling; evidence, not proof.",
        ref="3.3",
        note="Trusted: networkx VF2 with independent categorical matchers as ground truth; the harness-computed invariant "
             "pre-grouping attribute. Stub: random facade for Utils.utils, pickle round trip as restart. Real: batch_cluster.py, "
             "graph_cluster.py, graph_morphism.graph_isomorphism."),
    "C14": dict(
        text="The real BatchReactor / BatchCluster / validators / SynCRN run in one process under a simulated environment: "
             "id() is a simulated address space that re-issues an address only after its owner is provably dead, cyclic GC runs "
             "only when the scheduler says so, joblib.Parallel and ProcessPoolExecutor are simulated pools (batches pickled once, "
             "per-worker address spaces, seeded batch sizes / completion order / worker recycling / worker crash). Every entry's "
             "output is compared with SynReactor on that entry alone. Seeded sampling of schedules x histories x configurations; "
             "a clean batch is evidence, not proof.",
        ref="3.1",
        note="Trusted: the pool model (loky pickles each batch once; workers share no memory; n_jobs==1 is in-process), the "
             "CPython refcount rule used to recognise pure temporaries, SynReactor on pristine objects as reference. Stubs: "
             "Parallel, ProcessPoolExecutor, id, GC trigger, random facade; all SynKit/RDKit/networkx code is real."),
    "C18": dict(
        text="CRNCanonicalizer and CRNAutomorphism run on generated networks, their isomorphic twins and one-edit neighbours while "
             "the simulator owns id() (address re-issue policy for temporaries) and the wall clock (tick per read, forward/backward "
             "jumps, freezes scheduled inside the calls). Every answer is compared with a backtracking enumeration of the view's "
             "structure-preserving self-maps; answers must not depend on allocator or clock unless flagged, flags need a cause, "
             "flagged answers must still be sound. Long-lived hypergraph and analyser objects are re-used, edited in place and re-keyed; lazy "
             "enumerations are suspended while other calls run on the same object; a second interpreter with another hash salt must "
             "reproduce stored canonical forms. Seeded sampling; evidence, not proof. As built: DESIGN.md section 8.",
        ref="3.5",
        note="Trusted: the 150-line backtracking reference (dsim/props/graphref.py); the rule that a pure temporary's address may be "
             "re-issued immediately. Stubs: id, time. Real: canon.py, automorphism.py, wl_canon.py (sound checks), backend/conversion, "
             "networkx VF2, a peer interpreter (dsim/peer.py) running the same real code."),
    "C15": dict(
        text="Seeded search over operation histories of the real CRNHyperGraph against a dict reference model: all four "
             "redundant indices, species set, labels and dense+sparse incidence matrix of every live network are compared "
             "after every operation, including legitimately failing operations, merges, self-merges and copies. Sampling, "
             "not proof; minimised op lists replay bit-for-bit.",
        ref="3.2",
        note="Trusted: the 150-line dict model in dsim/props/c15.py; CPython dict ordering for reconciling generated ids. "
             "No stub: the whole store runs real code."),
}

NA = {
 "C01": "pure function of two graphs / one string (ITS encode/decode): no schedule, clock, fault or history for a simulator to own",
 "C02": "pure graph function (reaction centre / radius-k context); the joblib helper in radius_expand.py is outside the property",
 "C03": "input x configuration quantifier over a pure computation; SynReactor's lazy fields are write-once memoisation inside one object",
 "C04": "same pure code path as C03 (own-template regeneration); nothing to schedule, delay or crash",
 "C05": "metamorphic over input representations; its only history clause (repeat the call) is exercised incidentally by C14 but not claimed",
 "C06": "SubgraphSearchEngine is static methods on defensive copies; limits are count-based, no clock, no shared state",
 "C08": "graph canonicalisation is a pure function (hashlib digests, int node ids, no cache survives a call)",
 "C09": "pure string->string/bool functions; their parallel batch wrappers are decided under C14",
 "C10": "pure conversions on strings and graphs; GML handled as strings, no file I/O in the anchored paths",
 "C11": "pure functions of a graph / a match list",
 "C12": "pure function of two graphs; search bounds are structural, not time-based",
 "C16": "pure conversions for every flag combination that claims invertibility; the hash()-derived fallback ids are outside what the property constrains",
 "C17": "deterministic linear algebra / LP on a matrix built in sorted order; the defect described is a function of the input, no seam into LAPACK/HiGHS",
 "C19": "pure function of the network; the defect noted in the property text is input-independent",
 "C20": "pure; the search bounds are state-count bounds, no clock, no I/O in the decision path",
}

def main():
    checks = []
    for pid, c in sorted(CLAIMED.items()):
        checks.append({
            "property_id": pid,
            "quick_cmd": f"./check {pid} --tier quick",
            "thorough_cmd": f"./check {pid} --tier thorough",
            "evidence_file": f"/verif/evidence/{pid}.json",
            "replay_cmd_template": f"./check {pid} --replay {{path}}",
            "engine": "dsim",
            "level_claimed": {"category": "exploration", "text": c["text"], "design_ref": "DESIGN.md §" + c["ref"]},
            "level_note": c["note"],
            "technique": "deterministic simulation with fault injection",
        })
    m = {
        "version": 1,
        "setup_cmd": "/venv/bin/python -c \"import synkit, networkx, joblib, cloudpickle; print('dsim ready')\" && chmod +x /verif/check",
        "hooks": {
            "guard": "SYNKIT_VERIF",
            "enable": "no source hooks: every seam is an existing rebinding point (module globals id/time/random/Parallel/ProcessPoolExecutor, class attribute _wl_cache) bound by dsim/seams.py at run time; synkit is an editable install of /repo, so checks always run the current working tree",
            "baseline_off_cmd": "cd /repo && /venv/bin/python -m pytest -ra -q -p no:cacheprovider --timeout=900 --continue-on-collection-errors",
            "source_commits": [],
            "add_only": True,
        },
        "engines": [{"name": "dsim", "path": "/verif/dsim", "serves_properties": sorted(CLAIMED),
                     "kind_free_text": "plain-Python deterministic simulator: seeded op+fault lists, simulated id()/GC/clock/joblib/ProcessPool, reference models, ddmin shrinker, replay files"}],
        "checks": checks,
        "not_applicable": [{"property_id": k, "reason": v} for k, v in sorted(NA.items()) if k not in CLAIMED],
        "notes": "Technique family: deterministic simulation with fault injection only. Exit 0 held, 1 VIOLATION, 2 harness error. "
                 "Repairs of genuine defects are 'fix:' commits in /repo, listed in known_findings.json.",
    }
    json.dump(m, open("MANIFEST.json", "w"), indent=1)

main()
