#!/venv/bin/python
"""Systematic sensitivity sweep (dev tool): AST mutation of the anchored functions.

For every generated mutant of the listed functions:
  1. the relevant part of the repository's own test suite is run (a mutant the tests kill is out of scope);
  2. the property's quick check is run against a scratch copy carrying the mutant (DSIM_REPO);
  3. verdict: killed-by-tests / CAUGHT (exit 1) / ERROR (exit 2: the library raised or hung) / SURVIVED (exit 0).
Survivors are either equivalent w.r.t. the property or a blind spot - they are triaged by hand (DESIGN.md §8.8).

usage: tools/mutate.py <target-name> [--jobs 8] [--runs N] [--limit K]
Scratch copies live under /tmp/dsim-mutate-* and are removed at the end.
"""
from __future__ import annotations

import argparse
import ast
import copy
import json
import os
import shutil
import subprocess
import sys
import tempfile
import time
from concurrent.futures import ThreadPoolExecutor
from typing import Any, Dict, List, Optional, Tuple

VERIF = os.path.dirname(os.path.dirname(os.path.abspath(__file__)))
REPO = "/repo"
PY = "/venv/bin/python"

TARGETS: Dict[str, Dict[str, Any]] = {
    "c15-hypergraph": {"pid": "C15", "file": "synkit/CRN/Hypergraph/hypergraph.py", "tests": ["Test/CRN/Hypergraph"],
                       "funcs": ["_next_edge_id_for_rule", "add_rxn", "add_rxn_from_str", "parse_rxns", "remove_rxn", "remove_species",
                                 "copy", "merge", "incidence_matrix", "set_mol_map", "assign_mol"], "runs": 6000},
    "c15-rxn": {"pid": "C15", "file": "synkit/CRN/Hypergraph/rxn.py", "tests": ["Test/CRN/Hypergraph"],
                "funcs": ["__post_init__", "_normalize_any", "from_any", "from_str", "pop", "to_dict", "copy", "species", "keys", "items"], "runs": 6000},
    "c13-batch": {"pid": "C13", "file": "synkit/Graph/Matcher/batch_cluster.py", "tests": ["Test/Graph/Matcher/test_batch_cluster.py", "Test/Graph/Context"],
                  "funcs": ["lib_check", "batch_dicts", "cluster", "fit"], "runs": 4000},
    "c13-graph": {"pid": "C13", "file": "synkit/Graph/Matcher/graph_cluster.py", "tests": ["Test/Graph/Matcher/test_graph_cluster.py", "Test/Graph/Matcher/test_batch_cluster.py"],
                  "funcs": ["iterative_cluster", "fit"], "runs": 4000},
    "c07-engine": {"pid": "C07", "file": "synkit/Graph/Matcher/graph_matcher.py", "tests": ["Test/Graph/Matcher/test_graph_matcher.py"],
                   "funcs": ["_wl1_hash", "_wl_hash_cached", "_compile_node_matcher", "_compile_edge_matcher", "_pre_check",
                             "_isomorphic_nx", "_get_mappings_nx", "nm", "em"], "runs": 5000},
    "c07-sub": {"pid": "C07", "file": "synkit/Graph/Matcher/subgraph_matcher.py", "tests": ["Test/Graph/Matcher/test_subgraph_matcher.py", "Test/Synthesis"],
                "funcs": ["subgraph_isomorphism", "is_subgraph", "_quick_pre_filter", "find_subgraph_mappings"], "runs": 5000},
    "c07-morph": {"pid": "C07", "file": "synkit/Graph/Matcher/graph_morphism.py", "tests": ["Test/Graph/Matcher"],
                  "funcs": ["graph_isomorphism", "subgraph_isomorphism"], "runs": 5000},
    "c18-canon": {"pid": "C18", "file": "synkit/CRN/Topo/canon.py", "tests": ["Test/CRN/Topo"],
                  "funcs": ["_freeze", "_init_part", "_sig", "_refine", "_label", "_search", "_orbits_from_perms", "_maps_from_perms", "_canon",
                            "graph", "summary", "canonical"], "runs": 4000},
    "c18-aut": {"pid": "C18", "file": "synkit/CRN/Topo/automorphism.py", "tests": ["Test/CRN/Topo"],
                "funcs": ["_node_match", "_edge_match", "match", "_should_stop", "_graph_matcher", "iter", "has_nontrivial_automorphism",
                          "_compute_orbits_from_mappings", "summary", "detect_automorphisms"], "runs": 4000},
    "c18-backend": {"pid": "C18", "file": "synkit/CRN/Hypergraph/backend.py", "tests": ["Test/CRN"],
                    "funcs": ["_build_graph", "G", "graph_type"], "runs": 4000},
    "c14-reactor": {"pid": "C14", "file": "synkit/Synthesis/Reactor/batch_reactor.py", "tests": ["Test/Synthesis"],
                    "funcs": ["__call__", "_dedupe", "fit", "worker", "_to_graph", "_ensure_graph_rules", "_apply_bulk"], "runs": 300},
    "c14-crn": {"pid": "C14", "file": "synkit/CRN/DAG/syncrn.py", "tests": ["Test/CRN/DAG"],
                "funcs": ["_run_tasks", "_integrate_results"], "runs": 300},
}


# ---------------------------------------------------------------------------
# mutation operators
# ---------------------------------------------------------------------------

CMP_SWAP = {ast.Lt: [ast.LtE, ast.GtE], ast.LtE: [ast.Lt], ast.Gt: [ast.GtE, ast.LtE], ast.GtE: [ast.Gt], ast.Eq: [ast.NotEq],
            ast.NotEq: [ast.Eq], ast.In: [ast.NotIn], ast.NotIn: [ast.In], ast.Is: [ast.IsNot], ast.IsNot: [ast.Is]}
BIN_SWAP = {ast.Add: ast.Sub, ast.Sub: ast.Add, ast.Mult: ast.Add}


class Site:
    def __init__(self, desc: str, apply):
        self.desc = desc
        self.apply = apply


def sites_in(func: ast.AST) -> List[Tuple[str, Any]]:
    out: List[Tuple[str, Any]] = []
    for node in ast.walk(func):
        ln = getattr(node, "lineno", 0)
        if isinstance(node, ast.Compare):
            for i, op in enumerate(node.ops):
                for alt in CMP_SWAP.get(type(op), []):
                    out.append((f"L{ln} cmp {type(op).__name__}->{alt.__name__}", ("cmp", node, i, alt)))
        elif isinstance(node, ast.BoolOp):
            alt = ast.Or if isinstance(node.op, ast.And) else ast.And
            out.append((f"L{ln} bool {type(node.op).__name__}->{alt.__name__}", ("boolop", node, alt)))
        elif isinstance(node, ast.UnaryOp) and isinstance(node.op, ast.Not):
            out.append((f"L{ln} drop-not", ("dropnot", node)))
        elif isinstance(node, (ast.If, ast.While)) :
            out.append((f"L{ln} negate-{type(node).__name__.lower()}", ("negtest", node)))
            if isinstance(node, ast.If):
                out.append((f"L{ln} if-always-false", ("constfalse", node)))
        elif isinstance(node, ast.BinOp) and type(node.op) in BIN_SWAP:
            out.append((f"L{ln} binop {type(node.op).__name__}->{BIN_SWAP[type(node.op)].__name__}", ("binop", node, BIN_SWAP[type(node.op)])))
        elif isinstance(node, ast.Constant) and isinstance(node.value, bool):
            out.append((f"L{ln} const {node.value}->{not node.value}", ("const", node, not node.value)))
        elif isinstance(node, ast.Constant) and isinstance(node.value, int) and not isinstance(node.value, bool) and abs(node.value) <= 5:
            out.append((f"L{ln} const {node.value}->{node.value + 1}", ("const", node, node.value + 1)))
        elif isinstance(node, ast.Break):
            out.append((f"L{ln} break->continue", ("swapstmt", node, ast.Continue)))
        elif isinstance(node, ast.Continue):
            out.append((f"L{ln} continue->break", ("swapstmt", node, ast.Break)))
        elif isinstance(node, ast.Call) and isinstance(node.func, ast.Name) and node.func.id in ("min", "max"):
            out.append((f"L{ln} {node.func.id}->{'max' if node.func.id == 'min' else 'min'}", ("rename", node.func, "max" if node.func.id == "min" else "min")))
        elif isinstance(node, ast.Call) and isinstance(node.func, ast.Name) and node.func.id == "sorted" and node.args:
            out.append((f"L{ln} drop-sorted", ("unwrap", node)))
        if isinstance(node, (ast.Expr, ast.Assign, ast.AugAssign)) and not (isinstance(node, ast.Expr) and isinstance(node.value, ast.Constant)):
            out.append((f"L{ln} delete-stmt {type(node).__name__}", ("delstmt", node)))
        if isinstance(node, ast.Return) and node.value is not None and not isinstance(node.value, ast.Constant):
            pass
    return out


def apply_site(tree: ast.AST, spec: Any) -> None:
    kind = spec[0]
    if kind == "cmp":
        _, node, i, alt = spec
        node.ops[i] = alt()
    elif kind == "boolop":
        spec[1].op = spec[2]()
    elif kind == "dropnot":
        n = spec[1]
        repl = n.operand
        _replace(tree, n, repl)
    elif kind == "negtest":
        n = spec[1]
        n.test = ast.UnaryOp(op=ast.Not(), operand=n.test)
    elif kind == "constfalse":
        spec[1].test = ast.Constant(value=False)
    elif kind == "binop":
        spec[1].op = spec[2]()
    elif kind == "const":
        spec[1].value = spec[2]
    elif kind == "swapstmt":
        _replace(tree, spec[1], spec[2]())
    elif kind == "rename":
        spec[1].id = spec[2]
    elif kind == "unwrap":
        _replace(tree, spec[1], spec[1].args[0])
    elif kind == "delstmt":
        _replace(tree, spec[1], ast.Pass())


def _replace(tree: ast.AST, old: ast.AST, new: ast.AST) -> None:
    for parent in ast.walk(tree):
        for field, val in ast.iter_fields(parent):
            if val is old:
                setattr(parent, field, new)
                return
            if isinstance(val, list):
                for i, x in enumerate(val):
                    if x is old:
                        val[i] = new
                        return


def gen_mutants(path: str, funcs: List[str]) -> List[Tuple[str, str]]:
    src = open(path).read()
    base = ast.parse(src)
    # index functions (incl. nested) by name
    idx: List[Tuple[str, List[int]]] = []
    res: List[Tuple[str, str]] = []
    targets = [n for n in ast.walk(base) if isinstance(n, (ast.FunctionDef, ast.AsyncFunctionDef)) and n.name in funcs]
    for fi, fn in enumerate(targets):
        n_sites = len(sites_in(fn))
        for si in range(n_sites):
            tree = copy.deepcopy(base)
            tfn = [n for n in ast.walk(tree) if isinstance(n, (ast.FunctionDef, ast.AsyncFunctionDef)) and n.name in funcs][fi]
            desc, spec = sites_in(tfn)[si]
            try:
                apply_site(tree, spec)
                ast.fix_missing_locations(tree)
                code = ast.unparse(tree)
                compile(code, path, "exec")
            except Exception:
                continue
            res.append((f"{fn.name}:{desc}", code))
    return res


# ---------------------------------------------------------------------------
# driver
# ---------------------------------------------------------------------------


def run_one(slot_dir: str, rel: str, orig: str, name: str, code: str, t: Dict[str, Any], runs: int) -> Dict[str, Any]:
    fpath = os.path.join(slot_dir, rel)
    with open(fpath, "w") as fh:
        fh.write(code)
    env = dict(os.environ)
    env["PYTHONPATH"] = slot_dir
    env.pop("PYTHONHASHSEED", None)
    res: Dict[str, Any] = {"mutant": name}
    try:
        try:
            p = subprocess.run([PY, "-m", "pytest", "-x", "-q", "-p", "no:cacheprovider", "--timeout=120"] + t["tests"],
                               cwd=slot_dir, env=env, capture_output=True, text=True, timeout=400)
            tests_ok = p.returncode == 0
        except subprocess.TimeoutExpired:
            tests_ok = False
        if not tests_ok:
            res["verdict"] = "killed-by-tests"
            return res
        env2 = dict(os.environ)
        env2["DSIM_REPO"] = slot_dir
        env2.pop("PYTHONHASHSEED", None)
        try:
            c = subprocess.run([PY, os.path.join(VERIF, "dsim", "cli.py"), t["pid"], "--tier", "quick", "--no-evidence",
                                "--runs", str(runs), "--workers", "2", "--wall", "200"],
                               cwd=VERIF, env=env2, capture_output=True, text=True, timeout=420)
            rc = c.returncode
            sig = [ln.strip()[:200] for ln in c.stdout.splitlines() if ln.strip().startswith("signature=")][:1]
        except subprocess.TimeoutExpired:
            rc, sig = 2, ["timeout"]
        res["verdict"] = {0: "SURVIVED", 1: "CAUGHT"}.get(rc, "ERROR")
        res["sig"] = sig
        return res
    finally:
        with open(fpath, "w") as fh:
            fh.write(orig)


def main() -> int:
    ap = argparse.ArgumentParser()
    ap.add_argument("target")
    ap.add_argument("--jobs", type=int, default=8)
    ap.add_argument("--runs", type=int, default=None)
    ap.add_argument("--limit", type=int, default=None)
    ap.add_argument("--out", default=None)
    ap.add_argument("--only", default=None, help="comma separated substrings of mutant names")
    a = ap.parse_args()
    t = TARGETS[a.target]
    rel = t["file"]
    orig = open(os.path.join(REPO, rel)).read()
    muts = gen_mutants(os.path.join(REPO, rel), t["funcs"])
    if a.only:
        subs = a.only.split(",")
        muts = [m for m in muts if any(x in m[0] for x in subs)]
    if a.limit:
        muts = muts[: a.limit]
    print(f"[mutate] {a.target}: {len(muts)} mutants of {rel}", flush=True)
    slots = []
    for k in range(a.jobs):
        d = tempfile.mkdtemp(prefix="dsim-mutate-")
        shutil.copytree(os.path.join(REPO, "synkit"), os.path.join(d, "synkit"), ignore=shutil.ignore_patterns("__pycache__"))
        for extra in ("Test", "Data", "pyproject.toml"):
            src = os.path.join(REPO, extra)
            if os.path.isdir(src):
                os.symlink(src, os.path.join(d, extra))
            elif os.path.exists(src):
                shutil.copy(src, os.path.join(d, extra))
        # the unparsed original (no mutation) must be silent: baseline for "unparse changes nothing"
        slots.append(d)
    results: List[Dict[str, Any]] = []
    runs = a.runs or t["runs"]
    try:
        import queue
        q: "queue.Queue[str]" = queue.Queue()
        for d in slots:
            q.put(d)

        def work(m):
            d = q.get()
            try:
                r = run_one(d, rel, orig, m[0], m[1], t, runs)
            finally:
                q.put(d)
            print(f"[mutate] {r['verdict']:16s} {r['mutant']}  {(r.get('sig') or [''])[0][:120]}", flush=True)
            return r

        with ThreadPoolExecutor(max_workers=a.jobs) as ex:
            results = list(ex.map(work, muts))
    finally:
        for d in slots:
            shutil.rmtree(d, ignore_errors=True)
    summary: Dict[str, int] = {}
    for r in results:
        summary[r["verdict"]] = summary.get(r["verdict"], 0) + 1
    print(f"[mutate] {a.target}: {summary}")
    out = a.out or os.path.join(VERIF, "mutants", f"sweep-{a.target}.json")
    with open(out, "w") as fh:
        json.dump({"target": a.target, "file": rel, "runs_per_mutant": runs, "summary": summary,
                   "survivors": [r for r in results if r["verdict"] == "SURVIVED"],
                   "errors": [r for r in results if r["verdict"] == "ERROR"]}, fh, indent=1)
    return 0


if __name__ == "__main__":
    sys.exit(main())
