#!/venv/bin/python
"""usage: tools/survivors.py <target> [sweep.json]: prints the source diff of every surviving mutant of a sweep."""
import json, sys, ast, difflib, os
sys.path.insert(0, os.path.dirname(os.path.abspath(__file__)))
import mutate
tg = sys.argv[1]
f = sys.argv[2] if len(sys.argv) > 2 else f"/verif/mutants/sweep-{tg}.json"
d = json.load(open(f))
t = mutate.TARGETS[tg]; path = '/repo/' + t['file']
base = ast.unparse(ast.parse(open(path).read()))
want = {}
for r in d['survivors']:
    want[r['mutant']] = want.get(r['mutant'], 0) + 1
print(tg, d['summary'])
for name, code in mutate.gen_mutants(path, t['funcs']):
    if name in want:
        diff = [l for l in difflib.unified_diff(base.splitlines(), code.splitlines(), lineterm="", n=0) if not l.startswith(('---', '+++', '@@'))]
        print('==', name)
        for l in diff[:4]:
            print('   ', l.strip()[:170])
