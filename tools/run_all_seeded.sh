#!/bin/bash
# Re-runs every seeded change (seeded/<id>/patch.diff) against its property's quick check, using a patched scratch
# worktree (DSIM_REPO) so /repo is never touched. Prints one line per change: CAUGHT / MISSED.
cd "$(dirname "$(readlink -f "$0")")/.."
for d in seeded/*/; do
  id=$(basename $d); pid=$(python3 -c "import json;print(json.load(open('$d/meta.json'))['property'])")
  WT=/tmp/wt-seeded-$$-$id
  git -C /repo worktree add -q $WT HEAD || continue
  if git -C $WT apply $(readlink -f $d/patch.diff) 2>/dev/null; then
    DSIM_REPO=$WT timeout 900 ./check $pid --tier quick --no-evidence ${SEEDED_RUNS:+--runs $SEEDED_RUNS} > /tmp/w/seeded_$id.out 2>&1; rc=$?
    n=$(grep -c "^VIOLATION" /tmp/w/seeded_$id.out)
    if [ $rc -eq 1 ] && [ $n -gt 0 ]; then echo "$id $pid CAUGHT ($n signatures) $(grep -m1 'signature=' /tmp/w/seeded_$id.out | cut -c1-110)"; elif grep -q '"policy": "not-claimed"' $d/meta.json; then echo "$id $pid not caught, by decision (see meta.json: outside the property as stated)"; else echo "$id $pid MISSED (exit $rc)"; fi
  else echo "$id $pid PATCH-DOES-NOT-APPLY"; fi
  git -C /repo worktree remove --force $WT >/dev/null 2>&1
done
git -C /repo worktree prune
