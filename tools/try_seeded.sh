#!/bin/bash
# usage: tools/try_seeded.sh <dir with patch.diff demo.py> <PID> [skip-suite]
# 1. confirm in a scratch worktree: suite passes with the change, demo fails with / passes without
# 2. run ./check <PID> --tier quick against /repo with the patch applied, then undo
set -u
VERIF_DIR="$(dirname "$(readlink -f "$0")")/.."; VERIF_DIR="$(readlink -f "$VERIF_DIR")"
D=$(readlink -f $1); PID=$2; SKIP=${3:-}
WT=/tmp/wt-verify-$$
git -C /repo worktree add -q $WT HEAD || exit 9
trap 'git -C /repo worktree remove --force '$WT' >/dev/null 2>&1; git -C /repo checkout -- . ' EXIT
cd $WT
PYTHONPATH=$WT timeout 300 /venv/bin/python $D/demo.py >/tmp/w/demo_clean.out 2>&1; echo "demo on clean tree: exit $?"
git apply $D/patch.diff || { echo "PATCH DOES NOT APPLY"; exit 8; }
PYTHONPATH=$WT timeout 300 /venv/bin/python $D/demo.py >/tmp/w/demo_mut.out 2>&1; echo "demo with change:   exit $?"
if [ -z "$SKIP" ]; then
  PYTHONPATH=$WT timeout 1200 /venv/bin/python -m pytest -q -p no:cacheprovider Test 2>&1 | tail -1
fi
cd "$VERIF_DIR"
if [ -n "${USE_SCRATCH:-}" ]; then
  # a background `vp run` is using /repo: run the check against the patched scratch worktree instead
  DSIM_REPO=$WT timeout 900 ./check $PID --tier quick --no-evidence > /tmp/w/check_mut.out 2>&1; echo "check exit (DSIM_REPO=$WT): $?"
else
  git -C /repo apply $D/patch.diff || { echo "PATCH DOES NOT APPLY TO /repo"; exit 8; }
  timeout 900 ./check $PID --tier quick --no-evidence > /tmp/w/check_mut.out 2>&1; echo "check exit: $?"
  git -C /repo checkout -- .
fi
grep -E "^VIOLATION|signature=" /tmp/w/check_mut.out | cut -c1-260 | head -8
tail -1 /tmp/w/check_mut.out | cut -c1-200
