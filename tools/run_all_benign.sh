#!/bin/bash
# Every property-preserving change under benign/<id>/ must leave its property's quick check silent (exit 0).
cd "$(dirname "$(readlink -f "$0")")/.."
for d in benign/*/; do
  id=$(basename $d); pid=$(python3 -c "import json;print(json.load(open('$d/meta.json'))['property'])")
  out=$(tools/try_benign.sh $d $pid 2>&1 | head -1); echo "$id $pid $out"
done
