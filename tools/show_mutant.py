#!/venv/bin/python
"""usage: tools/show_mutant.py <target> <substring of mutant name> : prints the unified diff (unparsed original vs mutant)."""
import sys, ast, difflib, os
sys.path.insert(0, os.path.dirname(os.path.abspath(__file__)))
import mutate
t = mutate.TARGETS[sys.argv[1]]
path = os.path.join("/repo", t["file"])
base = ast.unparse(ast.parse(open(path).read()))
for name, code in mutate.gen_mutants(path, t["funcs"]):
    if sys.argv[2] in name:
        print("=====", name)
        for l in difflib.unified_diff(base.splitlines(), code.splitlines(), lineterm="", n=2):
            if not l.startswith(("---", "+++")):
                print(l)
