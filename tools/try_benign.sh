#!/bin/bash
# usage: tools/try_benign.sh <dir with patch.diff> <PID>   -- the check must stay silent (exit 0) on a property-preserving change
VERIF_DIR="$(dirname "$(readlink -f "$0")")/.."; VERIF_DIR="$(readlink -f "$VERIF_DIR")"
D=$(readlink -f $1); PID=$2
WT=/tmp/wt-benign-$$
git -C /repo worktree add -q $WT HEAD || exit 9
trap 'git -C /repo worktree remove --force '$WT' >/dev/null 2>&1' EXIT
git -C $WT apply $D/patch.diff || { echo "PATCH DOES NOT APPLY"; exit 8; }
cd "$VERIF_DIR"
DSIM_REPO=$WT timeout 900 ./check $PID --tier quick --no-evidence > /tmp/w/check_benign.out 2>&1; rc=$?
echo "check exit: $rc   ($(basename $D))"
grep -E "^VIOLATION|signature=|HARNESS|Error" /tmp/w/check_benign.out | cut -c1-400 | head -8
